"""SIGN-EXT (C01): the sign extensions of the decoders are exact.

A decoder extracts a W-bit signed field as `v = word & (2^W - 1)` (possibly after a shift) and then extends it with an
`if` without else whose condition reads only v and whose body is one assignment to v built from v and constants:
`if ((v & 0x10) != 0) v |= 0xe0;`, `if (v >= 0x800) v -= 0x1000;`, `if (v & 0x200) v = -((v ^ 0x3ff) + 1);` ...
W' is read from the adjusting constant (2^W' subtracted, or the zero low bits of the or-mask, or the xor mask).  The rule
evaluates the statement for every field value 0 .. 2^W'-1 in the variable's C type and compares with two's complement sign
extension of a W'-bit field.  A wrong boundary (`>` for `>=`: the most negative value prints positive) or a wrong constant
shows as a differing value; the instruction with that displacement is listed with another target or offset than was
assembled.  Statements that never produce a negative value are not sign extensions and are skipped."""
from nk.facts import kids, strip, const, show, walk
from nk.report import Ob, RuleResult, DISCHARGED, VIOLATED, OBSERVATION
from nk.build import AnalysisBroken
from nk.bitflow import type_width


def _ev(n, x, d):
    n = strip(n, casts=True)
    v = const(n)
    if v is not None:
        return v
    k = n['k']
    if k == 'DeclRefExpr':
        return x if n.get('d') == d else None
    if k == 'UnaryOperator':
        a = _ev(kids(n)[0], x, d)
        if a is None:
            return None
        op = n.get('op')
        return {'-': -a, '~': ~a, '!': int(not a), '+': a}.get(op)
    if k == 'BinaryOperator':
        a, b = _ev(kids(n)[0], x, d), _ev(kids(n)[1], x, d)
        if a is None or b is None:
            return None
        op = n.get('op')
        try:
            return {'==': lambda: int(a == b), '!=': lambda: int(a != b), '<': lambda: int(a < b), '>': lambda: int(a > b),
                    '<=': lambda: int(a <= b), '>=': lambda: int(a >= b), '&': lambda: a & b, '|': lambda: a | b,
                    '^': lambda: a ^ b, '+': lambda: a + b, '-': lambda: a - b, '>>': lambda: a >> b, '<<': lambda: a << b,
                    '*': lambda: a * b, '&&': lambda: int(bool(a) and bool(b)), '||': lambda: int(bool(a) or bool(b))}[op]()
        except (KeyError, ValueError):
            return None
    return None


def _wrap(v, bits, signed):
    v &= (1 << bits) - 1
    if signed and v >> (bits - 1):
        v -= 1 << bits
    return v


def sign_ext(prog, floor=40, files=('disasm/',)):
    import json
    import os
    tp = os.path.join(os.path.dirname(os.path.abspath(__file__)), 'signext_table.json')
    accepted = {}
    if os.path.exists(tp):
        for e in json.load(open(tp)).get('accepted', []):
            accepted[(e['file'], e['function'], e['var'], e['cond'])] = e['reason']
    obs = []
    for fn in sorted(prog.fns.values(), key=lambda f: (f.file, f.line)):
        if not fn.blocks or not fn.file.startswith(files):
            continue
        k = 0
        for n in sorted(fn.nodes.values(), key=lambda x: x['i']):
            if n['k'] != 'IfStmt':
                continue
            ks = [x for x in kids(n) if x is not None]
            if len(ks) != 2:
                continue
            cond, then = ks
            body = then
            while body is not None and body['k'] == 'CompoundStmt' and len([x for x in kids(body) if x is not None]) == 1:
                body = [x for x in kids(body) if x is not None][0]
            if body is None or body['k'] not in ('BinaryOperator', 'CompoundAssignOperator'):
                continue
            op = body.get('op', '')
            if op not in ('=', '|=', '-=', '+=', '^='):
                continue
            lhs = strip(kids(body)[0])
            if lhs['k'] != 'DeclRefExpr' or lhs.get('dk') not in ('local', 'param'):
                continue
            d = lhs['d']
            # condition and right-hand side read only v
            others = [x for x in list(walk(cond)) + list(walk(kids(body)[1]))
                      if x['k'] in ('DeclRefExpr', 'MemberExpr', 'CallExpr', 'CXXMemberCallExpr', 'ArraySubscriptExpr')
                      and not (x['k'] == 'DeclRefExpr' and (x.get('d') == d or x.get('dk') == 'enum'))]
            if others:
                continue
            t = fn.type(lhs) or ''
            bits = type_width(t.replace('uint', 'unsigned int').replace('int8_t', 'char')) if False else None
            tt = t.replace('const ', '').strip()
            TW = {'int8_t': (8, True), 'signed char': (8, True), 'char': (8, True), 'uint8_t': (8, False), 'unsigned char': (8, False),
                  'int16_t': (16, True), 'short': (16, True), 'uint16_t': (16, False), 'unsigned short': (16, False),
                  'int': (32, True), 'int32_t': (32, True), 'uint32_t': (32, False), 'unsigned int': (32, False),
                  'long': (64, True), 'int64_t': (64, True), 'uint64_t': (64, False), 'unsigned long': (64, False)}
            if tt not in TW:
                continue
            bits, signed = TW[tt]
            rhs = kids(body)[1]
            C = const(rhs)

            def f(x):
                c_ = _ev(cond, x, d)
                if c_ is None:
                    return None
                if not c_:
                    return _wrap(x, bits, signed)
                r_ = _ev(rhs, x, d)
                if r_ is None:
                    return None
                y = {'=': r_, '|=': x | r_, '-=': x - r_, '+=': x + r_, '^=': x ^ r_}[op]
                return _wrap(y, bits, signed)
            # width of the signed field from the adjusting constant
            W = None
            attempt = False
            if op == '-=' and C and C & (C - 1) == 0:
                W = C.bit_length() - 1
            elif op == '|=' and C is not None:
                cu = C & ((1 << bits) - 1)
                if cu:
                    tz = (cu & -cu).bit_length() - 1
                    run = cu >> tz
                    # a mask-like constant: at least four ones in a row starting at its lowest one (it is meant to fill
                    # the bits above the field; whether it fills all of them is what is checked)
                    if run & 0xf == 0xf:
                        W = tz
                        attempt = True
            elif op == '=':
                # v = v - 2^W, v = v | ~mask, v = -((v ^ mask) + 1): take the largest power-of-two-ish constant
                cs = [const(x) for x in walk(rhs) if const(x) is not None and x['k'] == 'IntegerLiteral']
                for c_ in cs:
                    if c_ and c_ & (c_ - 1) == 0 and c_ > 1:
                        W = max(W or 0, c_.bit_length() - 1)
                    elif c_ and (c_ + 1) & c_ == 0 and c_ > 1:
                        W = max(W or 0, c_.bit_length())
            # the condition names the sign bit: `(v & 2^b) != 0`, `v >= 2^b`, `v > 2^b - 1`
            cs_ = strip(cond)
            if cs_['k'] == 'BinaryOperator' and cs_.get('op') in ('!=', '==') and const(kids(cs_)[1]) is not None:
                inner = strip(kids(cs_)[0])
                if const(kids(cs_)[1]) == 0 or (inner['k'] == 'BinaryOperator' and const(kids(inner)[1]) == const(kids(cs_)[1])):
                    cs_ = inner
            Wc = None
            if cs_['k'] == 'BinaryOperator' and cs_.get('op') == '&':
                for a_, b_ in (kids(cs_), list(reversed(kids(cs_)))):
                    K = const(b_)
                    if K and K & (K - 1) == 0 and strip(a_, casts=True).get('d') == d:
                        Wc = K.bit_length()
            elif cs_['k'] == 'BinaryOperator' and cs_.get('op') in ('>=', '>') and strip(kids(cs_)[0], casts=True).get('d') == d:
                T = const(kids(cs_)[1])
                if T and cs_['op'] == '>=' and T & (T - 1) == 0:
                    Wc = T.bit_length()
                elif T and cs_['op'] == '>' and (T + 1) & T == 0:
                    Wc = (T + 1).bit_length()
                elif T and cs_['op'] == '>' and T & (T - 1) == 0:
                    Wc = T.bit_length()
            if Wc is not None:
                W = Wc
            if W is None or W < 2 or W > 24:
                continue
            vals = [f(x) for x in range(1 << W)]
            if None in vals:
                continue
            if not attempt and not any(v < 0 or (not signed and v >> (bits - 1)) for v in vals):
                continue            # never produces a negative value: not a sign extension
            # the field that was extracted: `v = E & M` right before
            Wm = None
            w_ = fn.where.get(n['i']) or fn.where.get(cond['i'])
            p_ = fn.parent.get(n['i'])
            sibs = [x for x in kids(p_) if x is not None] if p_ is not None else []
            if n in sibs:
                for prev in reversed(sibs[:sibs.index(n)]):
                    q = prev
                    while q is not None and q['k'] in ('CaseStmt', 'DefaultStmt') and kids(q):
                        q = kids(q)[-1]
                    if q is None:
                        break
                    if q['k'] == 'DeclStmt':
                        for d_, i_ in zip([y for y in q.get('decls', ()) if y.get('init')], kids(q)):
                            if d_['d'] == d:
                                q = {'k': 'BinaryOperator', 'op': '=', 'c': [lhs, i_], 'i': -1}
                    if q['k'] == 'BinaryOperator' and q.get('op') == '=' and strip(kids(q)[0]).get('d') == d:
                        r2 = strip(kids(q)[1], casts=True)
                        if r2['k'] == 'BinaryOperator' and r2.get('op') == '&':
                            for a_, b_ in (kids(r2), reversed(kids(r2))):
                                m_ = const(b_)
                                if m_ is not None and m_ > 0 and (m_ + 1) & m_ == 0:
                                    Wm = m_.bit_length()
                        break
                    if any(x['k'] == 'DeclRefExpr' and x.get('d') == d for x in walk(prev)):
                        break
            k += 1
            bad = None
            for x, v in enumerate(vals):
                want = x - (1 << W) if x >> (W - 1) else x
                if _wrap(want, bits, signed) != v:
                    bad = (x, v, _wrap(want, bits, signed))
                    break
            construct = 'signext#%d:%s' % (k, lhs.get('n'))
            if Wm is not None and Wm < W and not bad:
                obs.append(Ob('SIGN-EXT', fn.file, n['l'], fn.q, construct, VIOLATED,
                              '`%s` was extracted as a %d-bit field (mask %#x) but `if (%s) %s` extends it from bit %d: that bit '
                              'is never set, so negative values of the field are listed as large positive numbers' % (
                                  lhs.get('n'), Wm, (1 << Wm) - 1, show(cond), show(body), W - 1)))
                continue
            why = accepted.get((fn.file, fn.q, lhs.get('n'), show(cond)))
            if bad and why:
                obs.append(Ob('SIGN-EXT', fn.file, n['l'], fn.q, construct, OBSERVATION, 'accepted: %s' % why))
            elif bad:
                obs.append(Ob('SIGN-EXT', fn.file, n['l'], fn.q, construct, VIOLATED,
                              '`if (%s) %s` is not the sign extension of a %d-bit field: for the field value %#x it yields %d, two\'s '
                              'complement gives %d -- the instruction with that displacement/immediate is listed with another value '
                              'than was assembled' % (show(cond), show(body), W, bad[0], bad[1], bad[2])))
            else:
                obs.append(Ob('SIGN-EXT', fn.file, n['l'], fn.q, construct, DISCHARGED, '',
                              'equals %d-bit two\'s complement sign extension for all %d field values' % (W, 1 << W), True))
    if len(obs) < floor:
        raise AnalysisBroken('SIGN-EXT: only %d sign extensions recognised' % len(obs))
    return RuleResult('SIGN-EXT', obs, floor, {})

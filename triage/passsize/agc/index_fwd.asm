.agc
.org 0x3fe
start:
  index table
after_index:
  noop
  noop
table:
  noop

#!/bin/sh
# usage: mk.sh name "instruction" "definition"
cd /tmp/ps/out/arc
cat > $1.asm <<EOF
.arc
start:
  $2
after:
  nop_s
$3
EOF
${NAKEN:-/tmp/wt/ps_arc/naken_asm} -l -o $1.hex $1.asm > $1.log 2>&1; echo "== $1: $2 / $3 (rc=$?)"; grep -i "error\|warn" $1.log; grep -A1 "^0x0000" $1.lst | head -2; grep "0x.*nop_s" $1.lst; grep " after " $1.lst

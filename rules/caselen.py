"""CASE-LEN (C01): assembler and disassembler agree on the length of every operand-type case.

Most CPUs are table driven on both sides: parse_instruction_X and disasm_X both `switch (table_X[n].type)` over the same
enum (table/X.h).  For every enumerator that has a case arm on both sides:
  A = the set of byte counts the assembler arm can emit on a path that ends in a successful return inside the arm
      (add_bin8/16/32 weights, helper emission summaries; arm left by break / fallthrough = not counted),
  D = the set of constant lengths the decoder arm returns.
Decided only when both are finite and complete (no loop, no helper with unknown emission, every return constant).
The instruction the assembler emits for that operand type is A bytes long, the decoder advances by D: A must equal D as
sets when both are singletons, and in general every assembler length must be a decoder length (A subset of D) -- a length
the decoder never returns for that type means the listing / disassembly loses step with the instruction stream.
"""
from nk.facts import kids, strip, const, callee, ckey, show, walk
from nk.report import Ob, RuleResult, DISCHARGED, VIOLATED, OBSERVATION
from nk.build import AnalysisBroken
from rules import passsize
from rules.passsize import WEIGHT, EMIT


_LOOPS = {}
_W = {}


def _switches(fn):
    """(SwitchStmt node, condition text) of switches over a `.type`-like member of a table row."""
    out = []
    for n in fn.nodes.values():
        if n['k'] != 'SwitchStmt':
            continue
        cond = None
        for b in fn.blocks.values():
            if b.get('term') == n['i']:
                cond = fn.nodes.get(b.get('cond'))
        if cond is None:
            continue
        c = strip(cond, casts=True)
        if c['k'] == 'DeclRefExpr' and c.get('d') is not None:
            # a local copy `type = table_x[n].type` (single definition)
            from rules.pagebase import _defs
            ds = _defs(fn, c['d'])
            if len(ds) == 1:
                c = strip(ds[0], casts=True)
        if c['k'] == 'MemberExpr' and 'table_' in show(c):
            out.append((n, show(c)))
        elif c['k'] == 'ArraySubscriptExpr' and strip(kids(c)[0], casts=True)['k'] == 'MemberExpr' and 'table_' in show(c):
            # per-operand kind: switch (table_x[n].operand[r])
            out.append((n, show(strip(kids(c)[0], casts=True))))
    return out


def _table(txt):
    """table_xyz[n].type -> table_xyz"""
    import re
    m = re.search(r'(table_\w+)', txt)
    return m.group(1) if m else txt


def _head(fn, sw):
    """Blocks at which a path from a case arm is dropped: the switch dispatch block and the headers of the loops around
    it (reaching them means `no match here, try the next table row`)."""
    from nk.cfg import natural_loops
    out = set()
    for b, bb in fn.blocks.items():
        if bb.get('term') == sw['i']:
            out.add(b)
    if fn.key not in _LOOPS:
        _LOOPS[fn.key] = natural_loops(fn)
    for h, body in _LOOPS[fn.key].items():
        if out & set(body):
            out.add(h)
    return out


def _cases(fn, sw):
    """{enumerator name: (set of node ids of the arm's statements, [case nodes])}; fallthrough labels share statements."""
    out = {}
    body = kids(sw)[-1]
    cur = []
    for st in kids(body):
        labels = []
        x = st
        while x is not None and x['k'] in ('CaseStmt', 'DefaultStmt'):
            if x['k'] == 'CaseStmt':
                e = strip(kids(x)[0], casts=True) if kids(x) else None
                if e is not None and e['k'] == 'DeclRefExpr' and e.get('dk') == 'enum':
                    labels.append((e['n'], x))
                else:
                    labels.append((None, x))
            else:
                labels.append((None, x))
            x = kids(x)[-1]
        if labels:
            cur = [l for l, _ in labels if l]
            for l, cn in labels:
                if l:
                    out.setdefault(l, (set(), []))
                    out[l][1].append(cn)
            st = x
        for l in cur:
            if st is not None:
                out[l][0].update(y['i'] for y in walk(st))
    return out


def _arm_blocks(fn, ids):
    blocks = set()
    for b, bb in fn.blocks.items():
        if any(e in ids for e in bb['e']) or bb.get('cond') in ids:
            blocks.add(b)
    return blocks


def _entries(fn, blocks):
    pr = fn.preds()
    return [b for b in blocks if any(p not in blocks for p in pr.get(b, ()))]


def _weights(fn, summ):
    """Per block: (set of byte counts emitted in it or None, return value marker)."""
    if fn.key in _W:
        return _W[fn.key]
    wt = {}
    rets = {}
    for b in fn.blocks:
        w = frozenset([0])
        for e in fn.blocks[b]['e']:
            n = fn.nodes.get(e)
            if n is None:
                continue
            if n['k'] == 'ReturnStmt':
                rets[b] = const(kids(n)[0]) if kids(n) else None
            if w is None or n['k'] not in ('CallExpr', 'CXXMemberCallExpr'):
                continue
            q = (callee(n) or '').split('(')[0]
            add = None
            if q in WEIGHT:
                add = frozenset([WEIGHT[q]])
            elif q in EMIT:
                w = None
                continue
            else:
                s_ = summ.get(ckey(n), {})
                if s_.get('emits'):
                    add = s_.get('bytes')
                    # a helper shared by several operand types emits a type-dependent number of bytes: only a helper that
                    # always emits the same count can be attributed to the arm
                    if not add or len(add) != 1:
                        w = None
                        continue
            if add:
                w = frozenset(x + y for x in w for y in add)
        wt[b] = w
    _W[fn.key] = (wt, rets)
    return wt, rets


def _walk_lengths(fn, starts, wt, rets, inside=None, head=frozenset(), limit=20000):
    """Totals at successful returns on paths from `starts`; paths reaching `head` are dropped; when `inside` is given,
    edges leaving it are returned separately as (block, total) exits.  None = not finite."""
    out = set()
    exits = set()
    seen = set()
    st = [(b, 0) for b in starts]
    steps = 0
    while st:
        b, tot = st.pop()
        if (b, tot) in seen:
            continue
        seen.add((b, tot))
        steps += 1
        if steps > limit or tot > 64 or wt.get(b) is None:
            return None, None
        for w in wt[b]:
            t2 = tot + w
            if b in rets:
                v = rets[b]
                if v is None or v >= 0:
                    out.add(t2)
                continue
            for s_ in fn.blocks[b]['s']:
                if s_ is None or s_ in head:
                    continue
                if inside is not None and s_ not in inside:
                    exits.add((s_, t2))
                else:
                    st.append((s_, t2))
    return out, exits


def asm_lengths(fn, ids, summ, head=frozenset(), body=frozenset()):
    """Set of emitted byte counts on paths from the arm to a non-error return.  Paths that leave the arm (break) are followed
    only when everything after the arm emits one and the same number of bytes whatever branch is taken (so that no
    correlation between the case and later tests is needed); paths back to the switch (next table row) are not counted.
    None if not finite / not decided."""
    blocks = _arm_blocks(fn, ids)
    if not blocks:
        return None
    wt, rets = _weights(fn, summ)
    out, exits = _walk_lengths(fn, _entries(fn, blocks), wt, rets, inside=blocks, head=head)
    if out is None:
        return None
    for (b, tot) in exits:
        if b in body or tot == 0:
            # falls through into another arm (its tests decide), or nothing was emitted: `no match, try the next row`
            continue
        cont, _ = _walk_lengths(fn, [b], wt, rets, head=head)
        if cont is None or len(cont) > 1:
            return None
        for c in cont:
            out.add(tot + c)
    return out


def dis_lengths(fn, ids, head=frozenset(), body=frozenset()):
    """Set of constant lengths returned on paths from the arm; None when some return is not constant.  A path that leaves
    the arm is followed only when everything after it returns one and the same constant."""
    blocks = _arm_blocks(fn, ids)
    if not blocks:
        return None
    rets = {}
    for b in fn.blocks:
        for e in fn.blocks[b]['e']:
            n = fn.nodes.get(e)
            if n is not None and n['k'] == 'ReturnStmt':
                rets[b] = const(kids(n)[0]) if kids(n) else None

    def go(starts, inside):
        out, exits, seen = set(), set(), set()
        st = list(starts)
        while st:
            b = st.pop()
            if b in seen:
                continue
            seen.add(b)
            if b in rets:
                if rets[b] is None:
                    return None, None
                if rets[b] > 0:
                    out.add(rets[b])
                continue
            for s_ in fn.blocks[b]['s']:
                if s_ is None or s_ in head:
                    continue
                if inside is not None and s_ not in inside:
                    exits.add(s_)
                else:
                    st.append(s_)
        return out, exits
    out, exits = go(_entries(fn, blocks), blocks)
    if out is None:
        return None
    for b in exits:
        if b in body:
            continue
        cont, _ = go([b], None)
        if cont is None or len(cont) > 1:
            return None
        out |= cont
    return out


def case_len(prog, floor=500):
    files = {f.file for f in prog.fns.values() if f.file.startswith('asm/')}
    summ = passsize.summaries(prog, files)
    passsize.emit_summaries(prog, files, summ)
    passsize.byte_summaries(prog, files, summ)
    obs = []
    ncpu = 0
    for afn in sorted(prog.fns.values(), key=lambda f: f.file):
        if not afn.file.startswith('asm/') or not afn.name.startswith('parse_instruction_'):
            continue
        cpu = afn.name[len('parse_instruction_'):]
        dfn = None
        for f in prog.fns.values():
            if f.file == 'disasm/%s' % afn.file.split('/')[1] and f.name == 'disasm_' + cpu:
                dfn = f
        if dfn is None:
            continue
        A = {}
        for sw, txt in _switches(afn):
            head = _head(afn, sw)
            cs = _cases(afn, sw)
            body = _arm_blocks(afn, set().union(*[ids for ids, _ in cs.values()])) if cs else set()
            for name, (ids, cns) in cs.items():
                a = asm_lengths(afn, ids, summ, head, body)
                A.setdefault((_table(txt), name), []).append((a, cns[0], txt))
        D = {}
        for sw, txt in _switches(dfn):
            head = _head(dfn, sw)
            cs = _cases(dfn, sw)
            body = _arm_blocks(dfn, set().union(*[ids for ids, _ in cs.values()])) if cs else set()
            for name, (ids, cns) in cs.items():
                D.setdefault((_table(txt), name), []).append((dis_lengths(dfn, ids, head, body), cns[0], txt))
        common = sorted(set(A) & set(D))
        if common:
            ncpu += 1
        for name in common:
            al = [a for a, _, _ in A[name]]
            dl = [d for d, _, _ in D[name]]
            an = A[name][0][1]
            dn = D[name][0][1]
            if any(a is None for a in al) or any(d is None for d in dl):
                obs.append(Ob('CASE-LEN', afn.file, an['l'], afn.q, '%s:%s' % name, OBSERVATION,
                              'lengths of the arm are not finite constant sets on one side; not decided'))
                continue
            aset = set().union(*al)
            dset = set().union(*dl)
            if not aset or not dset:
                obs.append(Ob('CASE-LEN', afn.file, an['l'], afn.q, '%s:%s' % name, OBSERVATION,
                              'no successful return inside the arm on one side (asm %s, disasm %s); not decided' % (
                                  sorted(aset), sorted(dset))))
                continue
            ok = aset <= dset
            obs.append(Ob('CASE-LEN', afn.file, an['l'], afn.q, '%s:%s' % name, DISCHARGED if ok else VIOLATED,
                          '' if ok else 'operand type %s of %s: %s emits %s byte(s) but %s (%s:%d) returns %s for the same type: the '
                          'disassembly/listing of such an instruction advances by a different length than was assembled' % (
                              name[1], name[0], afn.q, sorted(aset), dfn.q, dfn.file, dn['l'], sorted(dset)),
                          'assembler emits %s, decoder returns %s' % (sorted(aset), sorted(dset))))
    n = len([o for o in obs if o.status != OBSERVATION])
    if n < floor:
        raise AnalysisBroken('CASE-LEN: only %d operand types compared' % n)
    return RuleResult('CASE-LEN', obs, floor, {'cpus': ncpu})


def table_index(prog, floor=100):
    """TABLE-INDEX: inside a search loop `for (n = 0; table_A[n].instr != NULL; n++)` an access `table_B[n].f` with
    another table indexes B with a row number of A.  It is harmless only while column f of B equals column f of A on every
    row of A (a latent mix-up, discharged with that argument); otherwise the decision taken for row n of A is the one that
    belongs to an unrelated row of B: an instruction is rejected, or assembled/decoded as another kind."""
    from nk.cfg import natural_loops
    from nk import tables
    obs = []
    nloops = 0
    for fn in sorted(prog.fns.values(), key=lambda f: (f.file, f.line)):
        if not fn.blocks or not fn.file.startswith(('asm/', 'disasm/', 'simulate/')):
            continue
        for h, body in sorted(natural_loops(fn).items()):
            bb = fn.blocks[h]
            cn = fn.nodes.get(bb.get('cond')) if 'cond' in bb else None
            if cn is None:
                continue
            keys = set()
            for x in walk(cn):
                if x['k'] != 'ArraySubscriptExpr':
                    continue
                b_ = strip(kids(x)[0], casts=True)
                i_ = strip(kids(x)[1], casts=True)
                if b_['k'] == 'DeclRefExpr' and i_['k'] == 'DeclRefExpr' and b_.get('n', '').startswith('table_'):
                    keys.add((b_['n'], i_.get('d')))
            if len(keys) != 1:
                continue
            nloops += 1
            (t, d), = keys
            bad = []
            for b in sorted(body):
                for e in list(fn.blocks[b]['e']) + ([fn.blocks[b]['cond']] if 'cond' in fn.blocks[b] else []):
                    n = fn.nodes.get(e)
                    if n is None or n['k'] != 'ArraySubscriptExpr':
                        continue
                    b_ = strip(kids(n)[0], casts=True)
                    i_ = strip(kids(n)[1], casts=True)
                    if b_['k'] == 'DeclRefExpr' and i_['k'] == 'DeclRefExpr' and i_.get('d') == d and \
                            b_.get('n', '').startswith('table_') and b_['n'] != t:
                        p = fn.parent.get(n['i'])
                        while p is not None and p['k'] in ('ImplicitCastExpr', 'ParenExpr'):
                            p = fn.parent.get(p['i'])
                        fld = p.get('n') if p is not None and p['k'] == 'MemberExpr' else None
                        bad.append((n, b_['n'], fld))
            if not bad:
                obs.append(Ob('TABLE-INDEX', fn.file, cn['l'], fn.q, 'loop:%s#%d' % (t, h), DISCHARGED, '',
                              'every table access with the loop index inside the loop over %s is to %s' % (t, t), False))
                continue
            for n, t2, fld in bad:
                same = None
                try:
                    r1, _, _ = tables.rows(prog, t)
                    r2, _, _ = tables.rows(prog, t2)
                    if fld is not None and len(r2) >= len(r1):
                        same = all(const(a.get(fld)) == const(b2.get(fld)) and (const(a.get(fld)) is not None or not a)
                                   for a, b2 in zip(r1, r2))
                except AnalysisBroken:
                    same = None
                if same:
                    obs.append(Ob('TABLE-INDEX', fn.file, n['l'], fn.q, '%s[n].%s in loop over %s' % (t2, fld, t), DISCHARGED, '',
                                  'wrong table, but column %s of %s equals that of %s on all %d rows of %s: no behaviour '
                                  'difference today (latent)' % (fld, t2, t, len(r1), t)))
                else:
                    obs.append(Ob('TABLE-INDEX', fn.file, n['l'], fn.q, '%s[n].%s in loop over %s' % (t2, fld, t), VIOLATED,
                                  '`%s[%s].%s` is read inside the search loop over %s: the row number of %s selects an unrelated '
                                  'row of %s, and the columns differ -- the instruction found in %s is handled (accepted, sized, '
                                  'printed) by the kind of another instruction' % (t2, show(kids(n)[1]), fld, t, t, t2, t)))
    if nloops < floor:
        raise AnalysisBroken('TABLE-INDEX: only %d table search loops' % nloops)
    return RuleResult('TABLE-INDEX', obs, floor, {'loops': nloops})


def _ev(n, env):
    """Concrete value of a condition atom under env ({('v', decl): int, ('col', name): int}); None = unknown."""
    n = strip(n, casts=True)
    v = const(n)
    if v is not None:
        return v
    k = n['k']
    if k == 'DeclRefExpr':
        return env.get(('v', n.get('d')))
    if k == 'MemberExpr':
        b_ = strip(kids(n)[0], casts=True) if kids(n) else None
        if b_ is not None and b_['k'] == 'ArraySubscriptExpr':
            t_ = strip(kids(b_)[0], casts=True)
            if t_['k'] == 'DeclRefExpr' and t_.get('n') == env.get('table'):
                return env.get(('col', n.get('n')))
        return None
    if k == 'UnaryOperator' and n.get('op') == '!':
        a = _ev(kids(n)[0], env)
        return None if a is None else int(not a)
    if k == 'BinaryOperator':
        op = n.get('op')
        a = _ev(kids(n)[0], env)
        b = _ev(kids(n)[1], env)
        if op == '&&':
            if a == 0 or b == 0:
                return 0
            return None if a is None or b is None else 1
        if op == '||':
            if (a is not None and a != 0) or (b is not None and b != 0):
                return 1
            return None if a is None or b is None else 0
        if a is None or b is None:
            return None
        try:
            return {'==': lambda: int(a == b), '!=': lambda: int(a != b), '<': lambda: int(a < b), '>': lambda: int(a > b),
                    '<=': lambda: int(a <= b), '>=': lambda: int(a >= b), '&': lambda: a & b, '|': lambda: a | b,
                    '^': lambda: a ^ b, '+': lambda: a + b, '-': lambda: a - b, '>>': lambda: a >> b,
                    '<<': lambda: a << b, '*': lambda: a * b}[op]()
        except (KeyError, ValueError):
            return None
    return None


def _edge_refuted(prog, fn, fa, mine, src, dst, table, typecol, typevals):
    """Is the edge src->dst (leaving the arm) impossible?  Every path inside the arm from its entries to src is
    enumerated; the tests on it are evaluated for every row of `table` whose type column selects this arm and every value
    of the one small-range local they read.  Returns the argument text when no (path, row, value) survives, else None."""
    from nk import tables
    # paths: lists of (cond node, truth)
    paths = []
    ents = _entries(fn, mine)
    stack = [(e, [], (e,)) for e in ents]
    steps = 0
    while stack:
        b, cs, vis = stack.pop()
        steps += 1
        if steps > 5000 or len(paths) > 300:
            return None
        succ = fn.blocks[b]['s']
        cn = fn.nodes.get(fn.blocks[b].get('cond')) if 'cond' in fn.blocks[b] else None
        for i, s_ in enumerate(succ):
            if s_ is None:
                continue
            c2 = cs
            if cn is not None and len(succ) == 2:
                own = strip(cn)
                while own['k'] == 'BinaryOperator' and own.get('op') in ('&&', '||'):
                    own = strip(kids(own)[1])
                c2 = cs + [(own, i == 0)]
            if b == src and s_ == dst:
                paths.append(c2)
            elif s_ in mine and s_ not in vis:
                stack.append((s_, c2, vis + (s_,)))
    if not paths:
        return None
    # variables read by the tests
    decls = {}
    cols = set()
    for cs in paths:
        for own, _ in cs:
            for x in walk(own):
                if x['k'] == 'DeclRefExpr' and x.get('dk') not in ('enum', 'func') and x.get('d') is not None \
                        and not x.get('n', '').startswith('table_'):
                    decls[x['d']] = x
                if x['k'] == 'MemberExpr' and kids(x):
                    b_ = strip(kids(x)[0], casts=True)
                    if b_['k'] == 'ArraySubscriptExpr':
                        t_ = strip(kids(b_)[0], casts=True)
                        if t_['k'] == 'DeclRefExpr' and t_.get('n') == table:
                            cols.add(x.get('n'))
    # the loop index of the table subscript is not a variable of the test
    envs = [{'table': table}]
    what = []
    if cols:
        try:
            rws, _, _ = tables.rows(prog, table)
        except AnalysisBroken:
            return None
        sel = [r for r in rws if r and const(r.get(typecol)) in typevals]
        if not sel:
            return None
        envs = []
        for r in sel:
            e = {'table': table}
            for c in cols:
                e[('col', c)] = const(r.get(c))
            envs.append(e)
        what.append('the %d rows of %s with this type' % (len(sel), table))
    small = {}
    stored_here = set()
    for b in mine:
        for e_ in fn.blocks[b]['e']:
            x = fn.nodes.get(e_)
            if x is None:
                continue
            t_ = None
            if x['k'] in ('BinaryOperator', 'CompoundAssignOperator') and x.get('op', '').endswith('=') and \
                    x['op'] not in ('==', '!=', '<=', '>='):
                t_ = strip(kids(x)[0])
            elif x['k'] == 'UnaryOperator' and x.get('op') in ('++', '--', '&'):
                t_ = strip(kids(x)[0])
            if t_ is not None and t_['k'] == 'DeclRefExpr':
                stored_here.add(t_.get('d'))
    for d, ref in decls.items():
        if d in stored_here:
            continue
        iv = fa.eval_at(ref, ref)
        if iv and iv[0] is not None and iv[1] is not None and 0 <= iv[1] - iv[0] <= 63:
            small[d] = (iv[0], iv[1], ref.get('n'))
    if len(small) > 2:
        return None
    for d, (lo, hi, nm) in small.items():
        envs = [{**e, ('v', d): x} for e in envs for x in range(lo, hi + 1)]
        what.append('%s in [%d, %d]' % (nm, lo, hi))
    if len(envs) > 8192:
        return None
    for cs in paths:
        for e in envs:
            ok = True
            for own, truth in cs:
                v = _ev(own, e)
                if v is not None and bool(v) != truth:
                    ok = False
                    break
            if ok:
                return None
    return 'the tests on every path to the end of the arm fail for %s' % ' and '.join(what or ['all values'])


def fallthrough(prog, floor=90):
    """CASE-FALLTHROUGH: in a switch over the operand type of an opcode-table row in asm/*.cpp, control never runs from the
    statements of one arm into the statements of the next arm.  (Labels stacked on one statement list share it and are one
    arm.)  A fall-through means that a source line whose operands do not fit type X is matched against the operand pattern
    of the unrelated type Y that happens to be written next, and encoded with X's opcode."""
    from nk.interval import Analyzer, FnIntervals
    an = Analyzer(prog)
    facache = {}
    reported = set()
    obs = []
    nsw = 0
    for fn in sorted(prog.fns.values(), key=lambda f: (f.file, f.line)):
        if not fn.blocks or not fn.file.startswith(('asm/', 'disasm/')):
            continue
        for sw, txt in _switches(fn):
            cs = _cases(fn, sw)
            if not cs:
                continue
            nsw += 1
            # arms as distinct statement sets
            arms = {}
            for name, (ids, cns) in cs.items():
                arms.setdefault(frozenset(ids), []).append((name, cns[0]))
            blocks_of = {ids: _arm_blocks(fn, ids) for ids in arms}
            # empty blocks that only carry one of the arm's stacked case labels belong to the arm
            for ids, names in arms.items():
                lab = {cn_['i'] for nm_, cn_ in names}
                for b_, bb_ in fn.blocks.items():
                    if bb_.get('label') in lab:
                        blocks_of[ids].add(b_)
            bad = 0
            for ids, names in sorted(arms.items(), key=lambda kv: kv[1][0][1]['l']):
                if not ids:
                    continue
                mine = blocks_of[ids]
                for b in mine:
                    for s_ in fn.blocks[b]['s']:
                        if s_ is None or s_ in mine:
                            continue
                        for ids2, names2 in arms.items():
                            if ids2 is ids or not ids2:
                                continue
                            ents = _entries(fn, blocks_of[ids2])
                            if s_ in ents and names2[0][1]['l'] > names[0][1]['l']:
                                # an arm that only filters (tests and `continue`, no call, no return of its own) and then
                                # shares the statements of the next arm is one arm with a guard, not a missing break
                                does = False
                                for i_ in ids:
                                    x_ = fn.nodes.get(i_)
                                    if x_ is not None and (x_['k'] in ('CallExpr', 'CXXMemberCallExpr') or
                                                           (x_['k'] == 'ReturnStmt' and kids(x_) and
                                                            not (const(kids(x_)[0]) is not None and const(kids(x_)[0]) < 0))):
                                        does = True
                                if not does:
                                    obs.append(Ob('CASE-FALLTHROUGH', fn.file, names[0][1]['l'], fn.q,
                                                  '%s:%s->%s' % (_table(txt), names[0][0], names2[0][0]), DISCHARGED, '',
                                                  'the arm of %s only filters rows (no call, no return of its own) before sharing the '
                                                  'statements of %s' % (names[0][0], names2[0][0]), False))
                                    continue
                                if fn.key not in facache:
                                    facache[fn.key] = FnIntervals(an, fn)
                                why = _edge_refuted(prog, fn, facache[fn.key], mine, b, s_, _table(txt), txt.split('.')[-1],
                                                    {cn_.get('v') for nm_, cn_ in names})
                                if why:
                                    obs.append(Ob('CASE-FALLTHROUGH', fn.file, names[0][1]['l'], fn.q,
                                                  '%s:%s->%s' % (_table(txt), names[0][0], names2[0][0]), DISCHARGED, '',
                                                  'the arm has no break before %s, but the end of the arm is unreachable: %s' % (
                                                      names2[0][0], why)))
                                    continue
                                bad += 1
                                if (fn.key, names[0][0], names2[0][0]) in reported:
                                    continue
                                reported.add((fn.key, names[0][0], names2[0][0]))
                                obs.append(Ob('CASE-FALLTHROUGH', fn.file, names[0][1]['l'], fn.q,
                                              '%s:%s->%s' % (_table(txt), names[0][0], names2[0][0]), VIOLATED,
                                              'the arm of %s (line %d) runs into the arm of %s (line %d): operands that do not fit '
                                              '%s are matched against the pattern of %s and encoded with the opcode of the %s row' % (
                                                  names[0][0], names[0][1]['l'], names2[0][0], names2[0][1]['l'],
                                                  names[0][0], names2[0][0], names[0][0])))
            if not bad:
                obs.append(Ob('CASE-FALLTHROUGH', fn.file, sw['l'], fn.q, 'switch:%s#%d' % (_table(txt), sw['l'] // 1000),
                              DISCHARGED, '', 'no arm of the %d operand types runs into the next one' % len(arms), True))
    if nsw < floor:
        raise AnalysisBroken('CASE-FALLTHROUGH: only %d operand-type switches' % nsw)
    return RuleResult('CASE-FALLTHROUGH', obs, floor, {'switches': nsw})


def dec_cover(prog, floor=25):
    """DEC-COVER: every opcode-table row the decoder can select has a handler for its operand type.

    For a decoder disasm_X whose search is `(opcode & table_T[n].mask) == table_T[n].opcode` followed by a switch on
    table_T[n].type: a row r whose type has no case label (and is not compared against anywhere in disasm/X.cpp) is
    reached with opcode word r.opcode unless an earlier row matches that word first.  Such a row exists in the table, the
    assembler may emit it, and the decoder falls into `default` / out of the switch: the instruction is listed as ??? or
    with the text of nothing."""
    from nk import tables
    obs = []
    ndec = 0
    for fn in sorted(prog.fns.values(), key=lambda f: f.file):
        if not fn.blocks or not fn.file.startswith('disasm/') or not fn.name.startswith('disasm_'):
            continue
        bytab = {}
        for sw, txt in _switches(fn):
            bytab.setdefault((_table(txt), txt.split('.')[-1]), []).append(sw)
        for (t, col), sl in sorted(bytab.items()):
            if col not in ('type', 'op_type', 'operand_type'):
                continue
            try:
                rws, fields, _ = tables.rows(prog, t)
            except (AnalysisBroken, KeyError):
                continue
            if 'opcode' not in fields or 'mask' not in fields:
                continue
            # the standard search test must be present in the function
            std = False
            for n in fn.nodes.values():
                if n['k'] == 'BinaryOperator' and n.get('op') in ('==', '!='):
                    txts = [show(x) for x in kids(n)]
                    if any('%s[' % t in x and '.mask' in x and '&' in x for x in txts) and \
                            any(x.startswith('%s[' % t) and x.endswith('.opcode') for x in txts):
                        std = True
            if not std:
                continue
            ndec += 1
            labels = set()
            for f2 in prog.fns.values():
                if f2.file != fn.file:
                    continue
                for n in f2.nodes.values():
                    if n['k'] == 'CaseStmt' and 'v' in n:
                        labels.add(n['v'])
                    if n['k'] == 'BinaryOperator' and n.get('op') in ('==', '!='):
                        l, r = kids(n)
                        for a, b in ((l, r), (r, l)):
                            if const(b) is not None and show(a).endswith('.' + col):
                                labels.add(const(b))
            live = [(i, r) for i, r in enumerate(rws) if r and tables.strval(r.get('instr') or r.get('name')) is not None]
            missing = {}
            for i, r in live:
                ty = const(r.get(col))
                if ty is None or ty in labels:
                    continue
                op, mk = const(r.get('opcode')), const(r.get('mask'))
                if op is None or mk is None:
                    continue
                first = None
                for j, r2 in live:
                    o2, m2 = const(r2.get('opcode')), const(r2.get('mask'))
                    if o2 is not None and m2 is not None and (op & m2) == o2:
                        first = j
                        break
                if first is not None and const(rws[first].get(col)) in labels:
                    continue                # an earlier (handled) row takes this word
                missing.setdefault(show(r[col]), []).append(tables.strval(r.get('instr') or r.get('name')))
            if not missing:
                obs.append(Ob('DEC-COVER', fn.file, fn.line, fn.q, 'table:%s' % t, DISCHARGED, '',
                              'every first-matching row of %s (%d rows) has a case for its %s in %s' % (t, len(live), col, fn.file)))
            for ty, names in sorted(missing.items()):
                obs.append(Ob('DEC-COVER', fn.file, fn.line, fn.q, '%s:%s' % (t, ty), VIOLATED,
                              'operand type %s (%s) of %s has no case in %s and no earlier row takes its opcode word: the '
                              'decoder finds the row and prints nothing / ??? for an instruction the table defines' % (
                                  ty, ', '.join(names[:6]), t, fn.q)))
    if ndec < floor:
        raise AnalysisBroken('DEC-COVER: only %d decoders with the standard table search' % ndec)
    return RuleResult('DEC-COVER', obs, floor, {'decoders': ndec})


def _std_tables(prog):
    """{table name: decoder fn} for the opcode tables searched with `(word & table[n].mask) == table[n].opcode`."""
    std = {}
    for fn in prog.fns.values():
        if not fn.blocks or not fn.file.startswith('disasm/'):
            continue
        for n in fn.nodes.values():
            if n['k'] == 'BinaryOperator' and n.get('op') in ('==', '!='):
                txts = [show(x) for x in kids(n)]
                for x in txts:
                    if 'table_' in x and '.mask' in x and '&' in x:
                        import re
                        m = re.search(r'(table_\w+)\[[^\]]*\]\.mask', x)
                        if m and any(y.startswith(m.group(1) + '[') and y.endswith('.opcode') for y in txts):
                            std.setdefault(m.group(1), fn)
    return std


def mask_cover(prog, floor=30):
    """MASK-COVER: in an opcode table that the decoder searches with `(word & mask) == opcode`, the opcode of every row lies
    inside its mask.  A row with an opcode bit outside the mask can never satisfy the test: the word the assembler emits for
    it is matched by some other row (listed under another mnemonic) or by none (`???`).  Rows that are deliberate spellings
    of another row's encoding (the extra bits are an operand value of the row that does match, e.g. RISC-V `seqz` =
    `sltiu rd, rs, 1`) are listed in rules/maskcover_table.json with that reason."""
    import json
    import os
    from nk import tables
    tp = os.path.join(os.path.dirname(os.path.abspath(__file__)), 'maskcover_table.json')
    accepted = {}
    if os.path.exists(tp):
        for e in json.load(open(tp)).get('accepted', []):
            accepted[(e['table'], e['instr'], e['opcode'])] = e['reason']
    obs = []
    std = _std_tables(prog)
    ntab = 0
    for t, fn in sorted(std.items()):
        try:
            rws, fields, g = tables.rows(prog, t)
        except (AnalysisBroken, KeyError):
            continue
        if 'opcode' not in fields or 'mask' not in fields:
            continue
        ntab += 1
        bad = 0
        nrow = 0
        for i, r in enumerate(rws):
            if not r:
                continue
            nm = tables.strval(r.get('instr') or r.get('name'))
            o, m = const(r.get('opcode')), const(r.get('mask'))
            if nm is None or o is None or m is None:
                continue
            nrow += 1
            extra = o & ~m & 0xffffffff
            if not extra:
                continue
            why = accepted.get((t, nm, '%#x' % o))
            if not why:
                # the extra bits are an operand field of this row's type: the assembler arm of the type inserts a field
                # exactly where each run of extra bits starts (arm64 `saddl2` = `saddl` with Q, which the arrangement sets)
                ty = None
                for c_ in ('type', 'op_type', 'operand_type'):
                    if c_ in r:
                        ty = const(r.get(c_))
                ash = _asm_insert_shifts(prog, t, ty)
                runs = [b for b in range(32) if (extra >> b) & 1 and (b == 0 or not (extra >> (b - 1)) & 1)]
                if ash is not None and runs and all(b in ash for b in runs):
                    why = 'the assembler arm of this operand type inserts an operand field at bit(s) %s, so the earlier row that ' \
                          'matches prints the same instruction with that operand' % runs
            if why:
                obs.append(Ob('MASK-COVER', g['file'], r['opcode']['l'], t, '%s:%s:%#x' % (t, nm, o), OBSERVATION,
                              'opcode bits %#x outside the mask %#x, accepted: %s' % (extra, m, why)))
                continue
            bad += 1
            obs.append(Ob('MASK-COVER', g['file'], r['opcode']['l'], t, '%s:%s:%#x' % (t, nm, o), VIOLATED,
                          'row `%s` has opcode %#x and mask %#x: bits %#x of the opcode lie outside the mask, so '
                          '`(word & mask) == opcode` (%s, %s) is false for every word -- the encoding the assembler emits for '
                          '%s is listed under another row\'s mnemonic or as ???' % (nm, o, m, extra, fn.q, fn.file, nm)))
        if not bad:
            obs.append(Ob('MASK-COVER', g['file'], g.get('line', 0), t, 'table:%s' % t, DISCHARGED, '',
                          'all %d rows have their opcode inside their mask' % nrow, False))
    if ntab < floor:
        raise AnalysisBroken('MASK-COVER: only %d tables with the standard search' % ntab)
    return RuleResult('MASK-COVER', obs, floor, {'tables': ntab})


def guard_len(prog, floor=8):
    """GUARD-LEN: a decoder that tests the length column of the matched table row (`if (table_T[n].bytes == K)`,
    `.size == 16/32` in bits) returns that length from the guarded statements: every constant `return L` directly under the
    guard has L == K (K/8 for a size in bits).  (6809: the 3-byte long branches returned 2.)"""
    obs = []
    for fn in sorted(prog.fns.values(), key=lambda f: (f.file, f.line)):
        if not fn.blocks or not fn.file.startswith('disasm/'):
            continue
        k = 0
        for n in sorted(fn.nodes.values(), key=lambda x: x['i']):
            if n['k'] != 'IfStmt':
                continue
            ks = [x for x in kids(n) if x is not None]
            if len(ks) < 2:
                continue
            cn = strip(ks[0])
            if cn['k'] != 'BinaryOperator' or cn.get('op') != '==':
                continue
            l, r = kids(cn)
            K = col = None
            for a, b in ((l, r), (r, l)):
                t = show(strip(a, casts=True))
                if const(b) is not None and 'table_' in t and t.split('.')[-1] in ('bytes', 'size', 'length', 'len'):
                    K, col = const(b), t.split('.')[-1]
            if K is None:
                continue
            want = K // 8 if col == 'size' and K in (8, 16, 24, 32, 48, 64) else K
            # returns directly under the guard (not inside a nested guard on the same column)
            then = ks[1]
            for x in walk(then):
                if x['k'] == 'ReturnStmt' and kids(x):
                    v = const(kids(x)[0])
                    if v is None or v <= 0:
                        continue
                    # skip returns under a nested length guard
                    p = fn.parent.get(x['i'])
                    nested = False
                    while p is not None and p is not n:
                        if p['k'] == 'IfStmt' and p is not n:
                            c2 = show(strip([y for y in kids(p) if y is not None][0]))
                            if 'table_' in c2 and any(('.' + c_ + ' ==') in c2 for c_ in ('bytes', 'size', 'length', 'len')):
                                nested = True
                        p = fn.parent.get(p['i'])
                    if nested:
                        continue
                    k += 1
                    ok = v == want
                    obs.append(Ob('GUARD-LEN', fn.file, x['l'], fn.q, 'return#%d' % k, DISCHARGED if ok else VIOLATED,
                                  '' if ok else '`return %d` under `%s`: the row says the instruction is %d byte(s) long, the decoder '
                                  'advances by %d: the following bytes are decoded out of step' % (v, show(cn), want, v),
                                  'returns the row\'s length %d' % want, False))
    if len(obs) < floor:
        raise AnalysisBroken('GUARD-LEN: only %d guarded returns' % len(obs))
    return RuleResult('GUARD-LEN', obs, floor, {})


_AINS = {}


def _asm_insert_shifts(prog, table, tyval):
    """Bit positions at which the assembler arm(s) for operand type `tyval` of `table` insert non-constant fields
    (None when the assembler has no switch arm for it)."""
    from rules import fieldshift
    if table not in _AINS:
        per = {}
        for afn in prog.fns.values():
            if not afn.blocks or not afn.file.startswith('asm/'):
                continue
            for sw, txt in _switches(afn):
                if _table(txt) != table:
                    continue
                col = txt.split('.')[-1]
                cs_ = _cases(afn, sw)
                body_ids = set().union(*[i_ for i_, _ in cs_.values()]) if cs_ else set()
                for name, (ids, cns) in cs_.items():
                    vals = {c.get('v') for c in cns if 'v' in c}
                    blocks = fieldshift._label_blocks(afn, ids, col, vals, None, table, body_ids)
                    sh = set(fieldshift._asm_shifts(afn, fieldshift._nodes_of_blocks(afn, blocks, body_ids)))
                    for v in vals:
                        per.setdefault(v, set()).update(sh)
        _AINS[table] = per
    return _AINS[table].get(tyval)

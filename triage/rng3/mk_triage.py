import json, re

O = "/tmp/rg3/out"
T = {}  # (file, line) -> (class, reason, demo, fix)

def ok(f, line, reason): T[(f, line)] = ("ok", reason, "", "")
def tr(f, line, reason, cpu): T[(f, line)] = ("truncates", reason, "%s/%s/%s_demo.asm" % (O, cpu, cpu), "%s/%s/%s.diff" % (O, cpu, cpu))

tr("asm/68000.cpp", 259,
   "Absolute short (xxx).W without a size suffix: pass 2 picks OPERAND_ADDRESS_W whenever num <= 0xffff (line 1960-1968), so a negative "
   "address below -32768 reaches add_bin16 unchecked; 'move.w (-70000), d0' assembles to 3038 ee90, identical to 'move.w (0xee90), d0' "
   "(same for tst/jmp and for the destination form at line 629). The explicit (n).w form is range-checked at line 1941, the implicit one is not. "
   "Fix: range error for num < -32768 where the parser selects OPERAND_ADDRESS_W (covers ea_address and the move destination emitters).", "68000")
tr("asm/6809.cpp", 279,
   "n,PC 16-bit offset: the branch is taken for every value outside -128..127 with no upper bound, so 'lda 70000,pc' emits a6 8d 11 70, "
   "identical to 'lda 0x1170,pc' ('lda -32769,pc' == 'lda 32767,pc'). Fix: check_range -32768..0xffff on OPERAND_INDEX_OFFSET_REG/PC offsets before table matching.", "6809")
ok("asm/6809.cpp", 285, "Else-branch of the test at line 276: the value is in -128..127 here, so & 0xff is the exact 8-bit two's complement offset (lda 127,pc -> 7f, lda -128,pc -> 80).")
tr("asm/6809.cpp", 297,
   "n,R 16-bit offset: taken for every value outside -128..127 with no bound; 'lda 70000,x' emits a6 89 11 70 == 'lda 0x1170,x', "
   "'lda [70000,y]' == 'lda [0x1170,y]', 'ldy -70000,u' == 'ldy -4464,u', 'lda 65536,x' == 'lda 0,x'. Same fix as line 279.", "6809")
ok("asm/6809.cpp", 304, "Reached only when the test at line 294 failed, i.e. value is in -128..127: & 0xff is the exact 8-bit offset (lda 127,x -> 88 7f, lda -128,x -> 88 80).")
ok("asm/6809.cpp", 309, "Reached only when both tests at lines 294 and 301 failed, i.e. value is in -16..15: & 0x1f is the exact 5-bit signed offset (lda 15,x -> 0f, lda -16,x -> 10).")
ok("asm/8048.cpp", 129, "Port number taken from the token 'pN' (not an expression) and guarded on the same if at line 127 by value >= 4 && value <= 7, so (value-4)&3 is exact; p8/p3 with movd are rejected (Unknown operands combo).")
ok("asm/8048.cpp", 135, "Port number from token 'pN', guarded at line 133 by value >= 1 && value <= 2; &3 loses nothing (outl p0/p3 are rejected).")
ok("asm/8048.cpp", 141, "Port number from token 'pN', guarded at line 139 by value >= 0 && value <= 3; &3 loses nothing.")
ok("asm/8048.cpp", 158, "Register number produced by get_register_8048 (token r0..r7 only, anything else returns -1 and is not OPERAND_R), so &7 is exact; 'mov a, r8' is rejected.")
ok("asm/arm.cpp", 390, "The test at line 382 requires the top 8 bits of the byte offset to be all 0 or all 1, i.e. offset in -2^24..2^24-1; after >>2 that is -2^22..2^22-1 which fits the signed 24-bit field, so & 0xffffff only strips sign extension. (The check is in fact stricter than the field and than its own message: b .+0x1000008 is rejected; no truncation.)")
ok("asm/arm64.cpp", 658, "shift is the shift keyword (lsl/lsr/asr/ror), computed as attribute - OPTION_LSL after lines 633-634 restricted attribute to OPTION_LSL..OPTION_ROR, so it is 0..3; the numeric shift amount is 'value', range-checked 0..0x3f at line 642 for the 6-bit imm6 field.")
ok("asm/arm64.cpp", 951, "attribute of an OPERAND_REG_VECTOR is the arrangement keyword (SIZE_8B..SIZE_2D = 0..7, larger ones rejected at line 333 of get_register_arm64); its low bit is the Q bit by construction of the enum, the element size comes from operands[0].attribute. Not a numeric operand (addv h1,v21.4h -> 0e71baa1, addv b1,v21.16b -> 4e31baa1).")
ok("asm/arm64.cpp", 1097, "size is the scalar register class b/h/s/d/q = 0..4 set by get_register_arm64 from the register letter; q (4) is encoded as size=00 with opc bit 1 set on the previous line, so &3 is the architected split, not a loss. The numeric offset is range-checked -256..255 at line 1100.")
ok("asm/arm64.cpp", 1164, "Same as op_ld_st_imm_p: size is the register-letter class 0..4 (b/h/s/d/q); 4 is represented by opc=2 plus size=0. Not an operand value. (Side remark: the scale used for q registers is then 0 instead of 4, a mis-scaling, not a truncation.)")
ok("asm/arm64.cpp", 1186, "check_range at line 1172 bounds offset to 0..(0xfff << shift) and line 1177 enforces alignment, so offset >> shift is 0..0xfff and the 12-bit mask is exact (ldr w3,[x4,#16380] -> imm12=0xfff, #16384 rejected, ldr b3,[x4,#4096] rejected).")
ok("asm/arm64.cpp", 2269, "attribute is the vector arrangement keyword 0..7 of operands[0] (OPERAND_REG_VECTOR, >= SIZE_B skipped at line 2208 and by get_register_arm64); bit 0 is Q and attribute/2 selects imm5 on the next line. Not a numeric operand (dup v1.2s,w3 -> 0e040c61, dup v1.4s,w3 -> 4e040c61).")
tr("asm/cell.cpp", 892,
   "hbr: the branch-instruction offset field ROH|ROL is a signed 9-bit word count (-1024..1020 bytes, as the error message says) but the test accepts +-2^17 bytes; "
   "'a: hbr a+2048+4, r3' assembles to 0x35800181, identical to 'b: hbr b+4, r3', and 'hbr g-4096' == 'hbr h'. Fix: compare against -(1<<10)..(1<<10)-1, the range the message already prints.", "cell")
tr("asm/cell.cpp", 939,
   "hbra/hbrr: same 9-bit ROH|ROL field, same +-2^17 test; 'c: hbra c+2048+4, 0x100' == 'd: hbra d+4, 0x100' (0x10002001) and 'e: hbrr e+2048+4, e' == 'f: hbrr f+4, f' (0x12000001). Same fix.", "cell")
tr("asm/mips.cpp", 2498,
   "vcallms (MIPS_OP_IMMEDIATE15_2): value is accepted in 0..0x7fff, value>>3 is then 0..0xfff but only 0x7ff is encoded (and decoded by disasm/mips.cpp:168), "
   "so 'vcallms 0x4000' == 'vcallms 0' (0x4a000038), 'vcallms 0x4008' == 'vcallms 8', 'vcallms 0x7ff8' == 'vcallms 0x3ff8'. "
   "Fix keeps the encoded/decoded 11-bit field and tightens the check to 0..(0x7ff << 3) (also repairs the '0x7fff << 8' in the message); "
   "the alternative is to widen encoder, decoder and check to the architectural 15-bit field, which is more than VU0's 4KB micro memory needs.", "mips")
ok("asm/mips.cpp", 2596, "RSP vector load/store: lines 2574-2579 bound the byte offset to -(0x40<<shift)..(0x40<<shift)-1 and line 2583 enforces alignment, so offset>>shift is -64..63 and & 0x7f is the exact signed 7-bit field (lqv 1008 -> 3f, -1024 -> 40, 1024 and -1040 rejected).")
ok("asm/riscv.cpp", 491, "The short form is reached only when force_long != 1 and line 482 forces the long form for every offset outside -2048..2047, so here offset fits the signed 12-bit jalr immediate and & 0xfff only strips sign extension (call with offset 2047 -> 0x7ff000e7, offset 2048 switches to the auipc+jalr pair).")
ok("asm/xtensa.cpp", 672, "addi.n: lines 657-663 restrict the constant to -1 or 1..15 and line 665 maps -1 to 0, so the value is 0..15 and fits the 4-bit field; the 0xff mask is wider than needed (16, 0, -2, 257 are rejected).")
ok("asm/xtensa.cpp", 679, "Big-endian twin of line 672: same checked value 0..15 (after -1 -> 0), 4-bit field, nothing lost.")
ok("asm/xtensa.cpp", 1438, "l32r: lines 1424-1436 restrict offset to multiples of 4 in -262140..-4, so offset>>2 is -65535..-1; the 16-bit field is ones-extended by the hardware (always negative), the mask removes only the implied high ones and the 65535 values map 1:1 to 0x0001..0xffff (-4 -> ffff, -262140 -> 0001, -262144 and >= 0 rejected).")
ok("asm/xtensa.cpp", 1653, "movi.n: line 1641 restricts the value to -32..95, exactly the set representable by the 7-bit field (0x60..0x7f mean -32..-1); the two masks are the imm7 low nibble and high 3 bits, sibling fields of one value, 128 inputs -> 128 distinct codes (96, -33, 4096 rejected).")
ok("asm/xtensa.cpp", 1660, "Big-endian twin of line 1653: same checked range -32..95 and the same 4+3 bit split of imm7.")
ok("asm/xtensa.cpp", 1965, "slli: line 1955 restricts the shift to 1..31, 32-sa is 1..31 (5 bits); t gets the low 4 bits here and bit 4 is encoded separately by (value >> 4) << 20 (or the low bit in the BE form) a few lines below (slli 15/16/17 -> 115310/115300/0153f0).")
ok("asm/xtensa.cpp", 1969, "srai: shift checked 1..31 at line 1955; s holds the low 4 bits and bit 4 goes to opcode bit 20 via (value >> 4) << 20 below (srai 15 -> 216fb0, srai 16 -> 3160b0; 32 rejected).")

out = []
for l in open("/tmp/rg3/candidates.txt"):
    m = re.match(r'=== KEY rule=(\S+) file=(\S+) function=(\S+) construct="(.*)" \(line (\d+)\)', l)
    if not m: continue
    rule, f, fn, cons, line = m.group(1), m.group(2), m.group(3), m.group(4), int(m.group(5))
    c, reason, demo, fix = T.pop((f, line))
    out.append({"rule": rule, "file": f, "function": fn, "construct": cons, "class": c, "reason": reason, "demo": demo, "fix": fix})
assert not T, T
with open(O + "/triage.jsonl", "w") as fh:
    for o in out: fh.write(json.dumps(o) + "\n")
print(len(out), sum(1 for o in out if o["class"] == "truncates"))

from mk import mk
mk('c01-riscv-dec-rs1-shift', ['C01'], 'dec:OP_R_TYPE', [('disasm/riscv.cpp', 'uint32_t rs1 = (opcode >> 15) & 0x1f;', 'uint32_t rs1 = (opcode >> 14) & 0x1f;')])
mk('c01-riscv-enc-store-imm', ['C01'], 'enc:OP_RS_INDEX_R', [('asm/riscv.cpp', '(((offset >> 5) & 0x7f) << 25) |\n                  (rs2 << 20)', '(((offset >> 5) & 0x3f) << 25) |\n                  (rs2 << 20)')])
mk('c01-riscv-perm-branch', ['C01'], 'enc:OP_SB_TYPE', [('asm/riscv.cpp', 'immediate |= ((offset >> 11) & 0x1) << 7;\n  immediate |= ((offset >> 5) & 0x3f) << 25;', 'immediate |= ((offset >> 11) & 0x1) << 8;\n  immediate |= ((offset >> 5) & 0x3f) << 25;')])
mk('c01-msp430-table-bit', ['C01'], 'table_msp430:subc', [('table/msp430.cpp', '{ "subc",  0x7000,', '{ "subc",  0x7100,')])
mk('c01-riscv-table-type', ['C01'], 'table_riscv:sltiu', [('table/riscv.cpp', '{ "sltiu",      0x00003013, 0x0000707f, OP_I_TYPE,', '{ "sltiu",      0x00003013, 0x0000707f, OP_UI_TYPE,')])
mk('c01-arm-len', ['C01'], 'disasm_arm:return 2', [('disasm/arm.cpp', '  return 4;\n}\n\nvoid list_output_arm', '  return 2;\n}\n\nvoid list_output_arm')])
mk('c01-msp430-dec-src', ['C01'], 'dec:two_operand:src', [('disasm/msp430.cpp', 'src = (opcode >> 8) & 0xf;\n  dst = opcode & 0xf;\n  o = opcode >> 12;\n  o = o - 4;', 'src = (opcode >> 9) & 0xf;\n  dst = opcode & 0xf;\n  o = opcode >> 12;\n  o = o - 4;')])
# benign: rename a local in the riscv decoder, reorder operands of |
mk('c01-benign-reorder', ['C01'], '', [('asm/riscv.cpp', 'opcode = table_riscv[n].opcode | immediate | (operands[0].value << 7);', 'opcode = (operands[0].value << 7) | immediate | table_riscv[n].opcode;')], silent=True)

.arc
start:
  add 0, r1, fwd
after:
  nop_s
.set fwd=100

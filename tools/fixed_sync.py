#!/usr/bin/env python3
"""List /repo 'fix:' commits that are not yet recorded as 'fixed:' lines in known_findings.jsonl; with
--append PROP RULE <hash-prefix>... append them."""
import subprocess, sys, os
HERE = os.path.dirname(os.path.dirname(os.path.abspath(__file__)))
kf = os.path.join(HERE, 'known_findings.jsonl')
have = open(kf).read()
log = subprocess.run(['git', '-C', '/repo', 'log', '--format=%h %s', '--reverse'], capture_output=True, text=True).stdout.splitlines()
fixes = [l.split(' ', 1) for l in log if l.split(' ', 1)[1].startswith('fix:')]
# hashes may change after a rebase: match on subject
missing = [(h, s) for h, s in fixes if s[5:] not in have]
if len(sys.argv) > 1 and sys.argv[1] == '--append':
    prop, rule = sys.argv[2], sys.argv[3]
    pref = sys.argv[4:]
    with open(kf, 'a') as f:
        for h, s in missing:
            if any(h.startswith(p) for p in pref):
                f.write('fixed: property=%s %s %s %s\n' % (prop, h, rule, s[5:]))
                print('recorded', h, s)
else:
    for h, s in missing:
        print(h, s)
# refresh hashes of recorded lines whose subject matches (rebases change them)
lines = open(kf).read().splitlines()
bysub = {s[5:]: h for h, s in fixes}
out = []
for l in lines:
    if l.startswith('fixed: property='):
        parts = l.split(' ', 4)
        if len(parts) == 5 and parts[4] in bysub and parts[2] != bysub[parts[4]]:
            parts[2] = bysub[parts[4]]
            l = ' '.join(parts)
    out.append(l)
open(kf, 'w').write('\n'.join(out) + '\n')

"""LIST-ADDR (C18): a listing / range-print line labels its data with the address the data was read from.

Instance: a printf/fprintf in list_output_X / disasm_range_X (and the helpers in the same file) whose format starts with an
address label (`0x%04x:` — the first conversion is followed by ':') and whose following numeric arguments are fed by
Memory::read8/16/32 calls (directly, or through a local assigned from such reads earlier in the same basic block or by its only
definition).  Let A be the label argument with a division by a constant removed (word-addressed CPUs print byte/k) and
B1..Bn the address arguments of the reads, all as linear forms over the function's locals.  The instance is violated when
A and every Bi are linear and A equals none of them; lines whose forms are not linear are observations."""
import re
from nk.facts import kids, strip, const, callee, show, walk, call_args
from nk.report import Ob, RuleResult, DISCHARGED, VIOLATED, OBSERVATION
from nk.build import AnalysisBroken
from rules.extent import Lin, WIDTH

LABEL = re.compile(r'^\s*(0x)?%0?\d*l?[xXo]:')


def _fmt_of(c):
    for i, a in enumerate(call_args(c)):
        x = strip(a, casts=True)
        if x is not None and x['k'] == 'StringLiteral':
            return i, x.get('s', '')
    return None, None


def _key(lf):
    return (tuple(sorted(lf[0].items())), lf[1])


def _reads_of(fn, L, e, at, depth=0):
    """linear forms of the address arguments of the reads that feed expression e (evaluated at node `at`)."""
    out = []
    for x in walk(e):
        q = (callee(x) or '').split('(')[0]
        if q in WIDTH and call_args(x):
            out.append(L.lin(call_args(x)[0]))
        elif x['k'] == 'DeclRefExpr' and x.get('dk') == 'local' and depth < 3:
            # the assignment that reaches `at` inside the same block, else the only definition
            w = fn.where.get(at['i']) or fn.block_of(at)
            src = None
            if w is not None:
                for eid in reversed(fn.blocks[w[0]]['e'][:w[1]]):
                    y = fn.nodes.get(eid)
                    if y is not None and y['k'] == 'BinaryOperator' and y.get('op') == '=' and \
                            strip(kids(y)[0]).get('d') == x.get('d'):
                        src = (kids(y)[1], y)
                        break
            if src is None:
                st = L.stored.get(x.get('d'), [])
                ini = L.inits.get(x.get('d'))
                if len(st) == 1 and ini is None and st[0]['k'] == 'BinaryOperator' and st[0].get('op') == '=':
                    src = (kids(st[0])[1], st[0])
                elif not st and ini is not None:
                    src = (ini, ini)
            if src is not None:
                out.extend(_reads_of(fn, L, src[0], src[1], depth + 1))
    return out


def list_addr(prog, floor=40):
    obs = []
    for fn in sorted(prog.functions(lambda f: f.file.startswith('disasm/') and f.name.startswith(('list_output_', 'disasm_range_'))),
                     key=lambda f: (f.file, f.line)):
        L = None
        k = 0
        for c in sorted(fn.calls(), key=lambda x: x['i']):
            q = (callee(c) or '').split('(')[0]
            if q not in ('printf', 'fprintf'):
                continue
            fi, fmt = _fmt_of(c)
            if fmt is None or not LABEL.match(fmt):
                continue
            args = call_args(c)[fi + 1:]
            if len(args) < 2:
                continue
            if L is None:
                L = Lin(fn)
            a = strip(args[0], casts=True)
            div = 1
            if a['k'] == 'BinaryOperator' and a.get('op') == '/' and const(kids(a)[1]):
                div = const(kids(a)[1])
                a = kids(a)[0]
            elif a['k'] == 'BinaryOperator' and a.get('op') == '>>' and const(kids(a)[1]) is not None:
                div = 1 << const(kids(a)[1])
                a = kids(a)[0]
            A = L.lin(a)
            # numeric data arguments up to the first %s
            specs = re.findall(r'%[-0-9.l]*([a-zA-Z])', fmt)
            reads = []
            for sp, arg in zip(specs[1:], args[1:]):
                if sp == 's':
                    break
                reads.extend(_reads_of(fn, L, arg, c))
            if not reads:
                continue
            k += 1
            construct = 'line#%d:%s' % (k, fmt.strip()[:24])
            if A is None or any(r is None for r in reads):
                obs.append(Ob('LIST-ADDR', fn.file, c['l'], fn.q, construct, OBSERVATION,
                              'label `%s` or a read address is not a linear form: not decided' % show(args[0])[:40]))
                continue
            ok = _key(A) in {_key(r) for r in reads}
            if not ok:
                # `if (n == 0) fprintf(..., start / 2, data)` with data = read16(start + n): the difference is a variable the
                # enclosing test sets to zero
                zero = set()
                prev = c
                for anc in fn.ancestors(c):
                    if anc['k'] == 'IfStmt' and len(kids(anc)) >= 2 and kids(anc)[1] is not None and \
                            prev['i'] == kids(anc)[1]['i']:
                        cd = strip(kids(anc)[0], casts=True)
                        if cd['k'] == 'BinaryOperator' and cd.get('op') == '==' and const(kids(cd)[1]) == 0:
                            v_ = strip(kids(cd)[0], casts=True)
                            if v_['k'] == 'DeclRefExpr':
                                zero.add(v_.get('d'))
                    prev = anc
                if zero:
                    def drop(lf):
                        return ({d_: c_ for d_, c_ in lf[0].items() if d_ not in zero}, lf[1])
                    ok = _key(drop(A)) in {_key(drop(r)) for r in reads}
            if ok:
                obs.append(Ob('LIST-ADDR', fn.file, c['l'], fn.q, construct, DISCHARGED, '',
                              'label address %s(%s) is the address of a read that feeds the line' % (
                                  'byte/%d of ' % div if div != 1 else '', show(a)[:30]), True))
            else:
                obs.append(Ob('LIST-ADDR', fn.file, c['l'], fn.q, construct, VIOLATED,
                              'the line is labelled with `%s` but the data it shows is read at %s: the listing attributes the '
                              'bytes to an address they are not at' % (show(args[0])[:50], ', '.join(sorted(set(
                                  '+'.join(['%s%s' % ('' if cf == 1 else '%d*' % cf, L.names.get(d, '?')) for d, cf in r[0].items()] +
                                           ([str(r[1])] if r[1] else [])) for r in reads)))[:120])))
    n = len([o for o in obs if o.status != OBSERVATION])
    if n < floor:
        raise AnalysisBroken('LIST-ADDR: only %d labelled data lines decided' % n)
    return RuleResult('LIST-ADDR', obs, floor, {})

"""T-DISP: dispatch exhaustiveness for output writers, input readers and naken_util commands."""
from nk.facts import kids, strip, const, callee, call_args, show, walk
from nk import tables
from nk.report import Ob, RuleResult, DISCHARGED, VIOLATED, OBSERVATION
from nk.build import AnalysisBroken


def _enum_names(prog, prefix):
    out = {}
    for e in prog.enums.values():
        for n, v in e['consts']:
            if n.startswith(prefix):
                out[v] = n
    return out


def _assigned_consts(fn, varname):
    s = set()
    for n in fn.nodes.values():
        if n['k'] == 'BinaryOperator' and n.get('op') == '=':
            l = strip(kids(n)[0])
            if l['k'] == 'DeclRefExpr' and l['n'] == varname:
                v = const(kids(n)[1])
                if v is not None:
                    s.add(v)
        elif n['k'] == 'DeclStmt':
            for d, i in zip([d for d in n.get('decls', ()) if d.get('init')], kids(n)):
                if d['n'] == varname and const(i) is not None:
                    s.add(const(i))
    return s


def disp(prog):
    names = _enum_names(prog, 'FILE_TYPE_')
    obs = []
    # (1) naken_asm: selectable output types all have a writer branch
    main = prog.fn('main', 'main/naken_asm.cpp')
    sel = _assigned_consts(main, 'file_type')
    fw = prog.fn('file_write')
    handled = set()
    for b in fw.blocks.values():
        cond = fw.nodes.get(b.get('cond'))
        if cond is None or len(b['s']) != 2:
            continue
        c = strip(cond)
        if c['k'] == 'BinaryOperator' and c.get('op') == '==' and strip(kids(c)[0]).get('n') == 'file_type':
            v = const(kids(c)[1])
            t = b['s'][0]
            calls = [callee(fw.nodes[e]) for e in fw.blocks[t]['e'] if fw.nodes.get(e) and callee(fw.nodes[e])] if t is not None else []
            if any(x and x.startswith('write_') for x in calls):
                handled.add(v)
    sw_cases = set()
    for n in fw.nodes.values():
        if n['k'] == 'CaseStmt' and 'v' in n:
            sw_cases.add(n['v'])
    handled |= sw_cases
    if not handled:
        raise AnalysisBroken('T-DISP: file_write dispatch not recognised')
    for v in sorted(sel):
        ok = v in handled
        obs.append(Ob('T-DISP', fw.file, fw.line, 'file_write', 'writer:' + names.get(v, str(v)),
                      DISCHARGED if ok else VIOLATED,
                      '' if ok else 'naken_asm can select output type %s but file_write has no branch that calls a writer '
                      'for it: exit status 0 with an empty output file' % names.get(v, v),
                      'selected in main(), written by a write_* call', False))
    # (2) reader dispatch: every value get_file_type can return / naken_util can select has a case
    fr = prog.fn('file_read')
    gft = None
    for fn in prog.functions(lambda f: f.file == 'fileio/file.cpp'):
        if fn.name in ('get_file_type', 'file_get_file_type'):
            gft = fn
    if gft is None:
        # the function that returns FILE_TYPE_* constants by extension/magic
        for fn in prog.functions(lambda f: f.file == 'fileio/file.cpp'):
            rets = {const(kids(n)[0]) for n in fn.nodes.values() if n['k'] == 'ReturnStmt' and kids(n)}
            if len(rets & set(names)) >= 4 and fn.q != 'file_get_file_type_name':
                gft = fn
    if gft is None:
        raise AnalysisBroken('T-DISP: file type detection function not found')
    rets = {const(kids(n)[0]) for n in gft.nodes.values() if n['k'] == 'ReturnStmt' and kids(n)}
    rets.discard(None)
    umain = prog.fn('main', 'main/naken_util.cpp')
    usel = _assigned_consts(umain, 'file_type') - {-1}
    cases = {}
    for n in fr.nodes.values():
        if n['k'] == 'CaseStmt' and 'v' in n:
            cases[n['v']] = n
    if not cases:
        raise AnalysisBroken('T-DISP: file_read switch not recognised')
    for v in sorted(rets | usel):
        ok = v in cases
        obs.append(Ob('T-DISP', fr.file, fr.line, 'file_read', 'reader:' + names.get(v, str(v)),
                      DISCHARGED if ok else VIOLATED,
                      '' if ok else 'file type %s can be detected/selected but file_read has no case for it' % names.get(v, v),
                      'detected by %s, read by a case of file_read' % gft.q, False))
    # (3) naken_util commands: every table entry is dispatched
    try:
        rws, fields, g = tables.rows(prog, 'command_names', 'main/naken_util.cpp')
    except AnalysisBroken:
        rws = None
    if rws is None:
        raise AnalysisBroken('T-DISP: command_names[] not found')
    tnames = [tables.strval(r[fields[0]]) for r in rws if r and not tables.is_null(r[fields[0]])]
    dispatched = set()
    for n in umain.nodes.values():
        if n['k'] == 'CXXOperatorCallExpr' and (n.get('callee') or '').endswith('operator=='):
            for x in walk(n):
                if x['k'] == 'StringLiteral':
                    dispatched.add(x.get('s'))
    if len(dispatched) < 10:
        raise AnalysisBroken('T-DISP: command dispatch chain not recognised (%d names)' % len(dispatched))
    for nm in tnames:
        ok = nm in dispatched
        obs.append(Ob('T-DISP', g['file'], g['line'], 'command_names', 'command:' + nm, DISCHARGED if ok else VIOLATED,
                      '' if ok else 'command `%s` is accepted by the validity table but no branch of the interpreter '
                      'executes it (silently ignored)' % nm, 'dispatched in main()', False))
    for nm in sorted(dispatched - set(tnames)):
        obs.append(Ob('T-DISP', g['file'], g['line'], 'command_names', 'extra:' + nm, OBSERVATION,
                      'command `%s` is dispatched but not in command_names[] (rejected as invalid before dispatch)' % nm))
    return RuleResult('T-DISP', obs, 40, {'selectable_outputs': len(sel), 'detected_inputs': len(rets | usel),
                                        'commands': len(tnames)})

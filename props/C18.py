"""C18 (narrow): R-PURE, SPAN, DUMP, DATA-TAG, R-UNIT, ACCESSOR (T-LANE, R-IDX(ptr) on the image accessors)."""
from nk import report
from rules import state, listing, passes, idx, lane, listaddr
from . import common

EXPLANATION = (
    'Decides the structural clauses listed; does not decide the behaviour as a whole. SPAN: assemble() snapshots the '
    'location counter immediately before parse_instruction (nothing in between can move it) and calls '
    'list_output(start_address, address) right after it. R-PURE: the 59 listing formatters and everything they reach only '
    'read the image. DUMP: the data-section dump walks low..high, selects exactly DL_DATA bytes, prints the image byte, and ends the current line at every address it does not list. '
    'DATA-TAG: every data directive stores its bytes with the DL_DATA marker (never through add_bin*), so each emitted byte is shown by list_output or by the dump. '
    'R-UNIT: printed symbol values / `$` are the byte counter divided once by bytes_per_address. ACCESSOR (T-LANE + R-IDX(ptr) on core/Memory*): the multi-byte accessors through which the formatters read instructions compose '
    'exactly the bytes at address..address+n-1 in the selected byte order and never read through a pointer that can run past the page buffer. '
    'LIST-ADDR: every line of the per-CPU listing formatters and range printers that starts with an address label shows data read at exactly that address (label with its division by the address unit removed == address argument of a Memory::read feeding the line, as linear forms). Not decided: the text of 68 formatters against the output file.')


def run(tier, t0):
    prog = common.program()
    cg = common.callgraph()
    mem = lane.lanes(prog, 40)
    mem.obs = [o for o in mem.obs if o.file in ('core/Memory.cpp', 'core/MemoryPage.h', 'core/Memory.h')]
    mem.floor = 4
    results = [listing.span(prog, cg), listing.dump(prog), listing.data_tag(prog), state.pure(prog, cg), passes.unit(prog), mem,
               idx.ptr_into_array(prog, lambda f: f.file in ('core/Memory.cpp', 'core/Memory.h', 'core/MemoryPage.h', 'core/MemoryPage.cpp')), listaddr.list_addr(prog, 60)]
    return report.finish('C18', tier, results, EXPLANATION, [], common.TRUSTED, t0)

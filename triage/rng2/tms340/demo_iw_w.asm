.tms340
.org 0x1000
  addi 0x12345, a0, w   ; 0b00 2345 -- same words as addi 0x2345, a0, w
  addi 0x2345, a0, w
  movi 0x12345, a0, w   ; 09c0 2345
  movi 0x2345, a0, w
  addi -32769, a0, w    ; 0b00 7fff
  addi 32767, a0, w

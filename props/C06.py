"""C06 (partial): R-RNG / R-RNG1 / R-RNG2 over asm/*.cpp, R-ERR2 on range diagnostics, REG-BOUND, VALUE-REWRITE, PAGE-BASE, TAUT-CHECK."""
import json
import os
from nk import report
from nk.report import RuleResult
from rules import rng, err, pagebase, overlap, deadstore
from . import common

EXPLANATION = (
    'Decides the structural clauses listed; does not decide the behaviour as a whole. R-RNG: every place in asm/*.cpp where a '
    'value that may come from an operand expression (flow-sensitive taint from eval_expression, register numbers separated '
    'by the operand type tag they are stored with) is masked with a constant or narrowed by an 8/16-bit emit is a site; '
    'sites masking the same value in one compound statement form one field. Discharged when the interval analysis of pass 2 '
    '(range checks with an error arm, check_range-style predicates, `pass == 2` guards) bounds the value inside the '
    'field (either sign spelling). R-RNG1 (violation): the value is bounded by a range the field cannot hold (check wider than '
    'the field). R-RNG2 (violation): no test with an error arm on the value exists on any path to the mask. Sites whose '
    'check has a form the interval domain does not express (same-page tests, path-dependent checks, table limits) are '
    'observations, not decided. R-ERR2: a range diagnostic is followed by an error return. DEAD-STORE: in assemblers and decoders no computed value (a scaling, mask or adjustment of an operand) is overwritten in its basic block before anything reads it. Not decided: injectivity of '
    'whole encodings, values OR-ed in without a mask, split fields whose bit set is not contiguous. PAGE-BASE: the same-block test of the paged jumps (8051 ajmp/acall, MIPS j/jal) compares the operand\'s block with the block of the architectural base (pc+2, pc+4). TAUT-CHECK: no comparison in asm/*.cpp tests a value against a same-block copy of itself. RANGE-CONTRA: the guard of every range diagnostic is satisfiable (read as a set of values of the tested expression, parameters taken at their call-site constants): `v < low && v > high` never rejects anything. FIELD-OVERLAP: in every emission `add_binN(opcode | f1 | f2 ...)` whose operand fields have a known bit shape (masks, shifts, interval-bounded operands, same-block definitions followed structurally) the fields are pairwise disjoint, so no accepted operand value spills into another operand. EMIT-FIT (with FIELD-OVERLAP): a field with a known bit shape does not reach beyond the unit add_bin8/16 stores. GUARD-USE: in the Epiphany assembler every register inserted into a 16-bit word is tested in a dominating condition. VALUE-REWRITE: an evaluated operand value is replaced by a constant only under an exact equality test of that value. REG-BOUND: every decimal '
    'accumulation `v = v*10 + digit` in an assembler loop is bounded inside the loop (a many-digit register number cannot wrap into a valid one).')

HERE = os.path.dirname(os.path.abspath(__file__))


def run(tier, t0):
    prog = common.program()
    with open(os.path.join(HERE, '..', 'rules', 'rng_table.json')) as f:
        tj = json.load(f)
    table = {(e['file'], e['function'], e['construct']): e['reason'] for e in tj.get('ok', [])}
    obs, stats = rng.rng(prog, table=table)
    res = RuleResult('R-RNG', obs, 120, stats)
    etable = err.load_table('err_table.json')
    e2 = err.err2(prog, lambda f: f.file.startswith('asm/'), etable, floor=100)
    e2.obs = [o for o in e2.obs if 'range' in o.construct]
    e2.floor = 50
    rb = rng.digit_acc(prog)
    vr = rng.value_rewrite(prog)
    return report.finish('C06', tier, [res, e2, rb, vr, pagebase.page_base(prog), pagebase.taut_check(prog), pagebase.range_contra(prog), overlap.field_overlap(prog, floor=100), overlap.guard_use(prog), deadstore.dead_store(prog, lambda f: f.file.startswith('asm/'), 500)], EXPLANATION,
                         ['a mask applied to a value is taken as the field it is encoded into; values inserted without a mask are not sites'],
                         common.TRUSTED, t0)

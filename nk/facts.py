"""Loading E1 facts and small tree/CFG helpers used by every rule."""
import json
import os
from . import build

TRANSPARENT = ('ParenExpr', 'ImplicitCastExpr', 'ExprWithCleanups', 'ConstantExpr',
               'MaterializeTemporaryExpr', 'CXXBindTemporaryExpr', 'SubstNonTypeTemplateParmExpr')
CASTS = ('CStyleCastExpr', 'CXXStaticCastExpr', 'CXXFunctionalCastExpr', 'CXXReinterpretCastExpr',
         'CXXConstCastExpr')


def kids(n):
    return n.get('c') or ()


def strip(n, casts=False):
    """Skip parentheses and implicit nodes (and explicit casts when casts=True)."""
    while n is not None:
        k = n['k']
        if k in TRANSPARENT or (casts and k in CASTS):
            c = kids(n)
            if not c:
                return n
            n = c[0]
        else:
            return n
    return n


def lvalue_root(n):
    """Root object of an l-value expression: strips members, subscripts of *arrays* and parentheses.
    A subscript or dereference of a pointer value leaves the object, so the root is then None."""
    while n is not None:
        n = strip(n)
        k = n['k']
        if k == 'MemberExpr':
            if n.get('arrow'):
                b = strip(kids(n)[0]) if kids(n) else None
                if b is not None and b['k'] == 'CXXThisExpr':
                    return b
                return None
            n = kids(n)[0] if kids(n) else None
        elif k == 'ArraySubscriptExpr':
            if 'bound' not in n:
                return None
            n = kids(n)[0]
        else:
            return n
    return None


def walk(n):
    """Pre-order over a tree."""
    st = [n]
    while st:
        x = st.pop()
        if x is None:
            continue
        yield x
        c = x.get('c')
        if c:
            st.extend(reversed(c))


def const(n):
    """Integer value of a constant expression node, or None."""
    if n is None:
        return None
    if 'ev' in n:
        return n['ev']
    if n['k'] in ('IntegerLiteral', 'CharacterLiteral', 'CXXBoolLiteralExpr'):
        return n.get('v')
    s = strip(n)
    if s is not n:
        return const(s)
    return None


def callee(n):
    return n.get('callee') if n is not None and n['k'] in (
        'CallExpr', 'CXXMemberCallExpr', 'CXXOperatorCallExpr', 'CXXConstructExpr') else None


def ckey(n):
    """Resolved callee key of a call node (file-qualified for internal-linkage callees)."""
    return n.get('ck') if n is not None else None


def call_args(n):
    """Argument nodes of a call (object excluded for member calls)."""
    c = list(kids(n))
    if n['k'] == 'CXXConstructExpr':
        return c
    if n['k'] == 'CXXOperatorCallExpr':
        return c[1:]
    return c[1:]


def call_object(n):
    """The object expression of a member call (node), or None."""
    if n['k'] != 'CXXMemberCallExpr':
        return None
    me = strip(kids(n)[0])
    if me['k'] == 'MemberExpr' and kids(me):
        return kids(me)[0]
    return None


def show(n, depth=0):
    """C-like rendering of an expression for reports."""
    if n is None:
        return ''
    if depth > 12:
        return '…'
    k = n['k']
    c = kids(n)
    d = depth + 1
    if k in TRANSPARENT:
        return show(c[0], d) if c else '?'
    if k in CASTS:
        return '(cast)' + show(c[0], d) if c else '?'
    if k == 'IntegerLiteral':
        v = n['v']
        return str(v) if v < 10 else hex(v)
    if k == 'CharacterLiteral':
        v = n['v']
        return repr(chr(v)) if 32 <= v < 127 else str(v)
    if k == 'StringLiteral':
        return json.dumps(n.get('s', ''))
    if k == 'CXXBoolLiteralExpr':
        return 'true' if n['v'] else 'false'
    if k == 'DeclRefExpr':
        return n['n']
    if k == 'MemberExpr':
        b = show(c[0], d) if c else 'this'
        if c and strip(c[0])['k'] == 'CXXThisExpr':
            return n['n']
        return b + ('->' if n.get('arrow') else '.') + n['n']
    if k == 'CXXThisExpr':
        return 'this'
    if k in ('BinaryOperator', 'CompoundAssignOperator'):
        return '%s %s %s' % (show(c[0], d), n['op'], show(c[1], d))
    if k == 'UnaryOperator':
        if n.get('post'):
            return show(c[0], d) + n['op']
        return n['op'] + show(c[0], d)
    if k == 'ArraySubscriptExpr':
        return '%s[%s]' % (show(c[0], d), show(c[1], d))
    if k in ('CallExpr', 'CXXMemberCallExpr', 'CXXOperatorCallExpr'):
        return '%s(%s)' % (show(c[0], d) if c else '?', ', '.join(show(a, d) for a in c[1:]))
    if k == 'ConditionalOperator':
        return '%s ? %s : %s' % (show(c[0], d), show(c[1], d), show(c[2], d))
    if k == 'UnaryExprOrTypeTraitExpr':
        return '%s(%s)' % (n.get('op', 'sizeof'), show(c[0], d) if c else '…')
    if k == 'CXXNullPtrLiteralExpr':
        return 'nullptr'
    if k == 'GNUNullExpr':
        return 'NULL'
    if k == 'ReturnStmt':
        return 'return ' + (show(c[0], d) if c else '')
    if k == 'CXXDefaultArgExpr':
        return show(c[0], d) if c else ''
    return k


class Fn:
    """One function definition with indexes over its tree and CFG."""
    __slots__ = ('key', 'j', 'q', 'name', 'file', 'line', 'end', 'unit', 'nodes', 'parent', 'blocks',
                 'entry', 'exit', 'where', 'types', '_preds', '_dom', '_pdom', 'body')

    def __init__(self, j, unit, types):
        self.j = j
        self.q = j['q']
        # internal-linkage functions and the two main()s are distinguished by file
        self.key = j['q'] + '@' + j['file'] if (j.get('static') or j['q'] == 'main') else j['q']
        self.name = j['n']
        self.file = j['file']
        self.line = j['line']
        self.end = j['end']
        self.unit = unit
        self.types = types
        self.nodes = {}
        self.parent = {}
        self.body = j.get('body')
        roots = [self.body] + [i.get('e') for i in j.get('inits', ())]
        for r in roots:
            if r is None:
                continue
            st = [(r, None)]
            while st:
                n, p = st.pop()
                if n is None:
                    continue
                self.nodes[n['i']] = n
                self.parent[n['i']] = p
                for ch in kids(n):
                    st.append((ch, n))
        self.blocks = {}
        self.where = {}
        cfg = j.get('cfg')
        self.entry = self.exit = None
        if cfg:
            self.entry, self.exit = cfg['entry'], cfg['exit']
            for b in cfg['blocks']:
                self.blocks[b['id']] = b
                for idx, e in enumerate(b['e']):
                    # the last occurrence wins (a node can be listed once only in practice)
                    self.where[e] = (b['id'], idx)
        self._preds = None
        self._dom = None
        self._pdom = None

    def type(self, n):
        t = n.get('t')
        return self.types[t] if t is not None else None

    def ret_type(self):
        return self.types[self.j['ret']]

    def params(self):
        return self.j['params']

    def loc(self, n=None):
        return '%s:%d' % (self.file, n['l'] if n is not None else self.line)

    def ancestors(self, n):
        p = self.parent.get(n['i'])
        while p is not None:
            yield p
            p = self.parent.get(p['i'])

    def succs(self, bid, possible=False):
        b = self.blocks[bid]
        return [s for s in (b['ps'] if possible else b['s']) if s is not None]

    def preds(self):
        if self._preds is None:
            pr = {b: [] for b in self.blocks}
            for b in self.blocks:
                for s in self.succs(b):
                    pr[s].append(b)
            self._preds = pr
        return self._preds

    def reachable_blocks(self, start=None, possible=False):
        start = self.entry if start is None else start
        seen = {start}
        st = [start]
        while st:
            b = st.pop()
            for s in self.succs(b, possible):
                if s not in seen:
                    seen.add(s)
                    st.append(s)
        return seen

    def calls(self):
        for n in self.nodes.values():
            if n['k'] in ('CallExpr', 'CXXMemberCallExpr', 'CXXOperatorCallExpr', 'CXXConstructExpr'):
                yield n

    def block_of(self, n):
        """CFG position (block, index) of a node or of its nearest listed ancestor/descendant."""
        w = self.where.get(n['i'])
        if w:
            return w
        for a in self.ancestors(n):
            w = self.where.get(a['i'])
            if w:
                return w
        return None


class Program:
    """All units of the build."""

    def __init__(self, unit_list=None):
        paths = build.extract(unit_list)
        self.units = {}
        self.fns = {}      # (q, file, line) -> Fn  (header functions de-duplicated)
        self.by_q = {}     # q -> [Fn]
        self.by_name = {}
        self.by_key = {}
        self.globals = {}  # q -> [global json (+ 'unit', 'types')]
        self.records = {}
        self.enums = {}
        self.enum_consts = {}
        for unit, path in paths.items():
            with open(path) as f:
                d = json.load(f)
            types = d['types']
            self.units[unit] = d
            local = {}
            for fj in d['functions']:
                if fj.get('static') or fj['q'] == 'main':
                    local[fj['d']] = fj['q'] + '@' + fj['file']
            for fj in d['functions']:
                key = (fj['q'], fj['file'], fj['line'])
                if key in self.fns:
                    continue
                fn = Fn(fj, unit, types)
                self.fns[key] = fn
                self.by_q.setdefault(fn.q, []).append(fn)
                self.by_name.setdefault(fn.name, []).append(fn)
                self.by_key.setdefault(fn.key, fn)
                for n in fn.nodes.values():
                    if 'cd' in n:
                        n['ck'] = local.get(n['cd'], n.get('callee'))
            for g in d['globals']:
                g['unit'] = unit
                g['types'] = types
                self.globals.setdefault(g['q'], []).append(g)
            for r in d['records']:
                if r['q'] not in self.records:
                    r['types'] = types
                    self.records[r['q']] = r
            for e in d['enums']:
                key = (e['q'], e['file'], e['line'])
                if key not in self.enums:
                    self.enums[key] = e
                    for n, v in e['consts']:
                        self.enum_consts.setdefault(n, v)

    def global_writes(self):
        """{global qname: [(fn, node)]} for every assignment / ++ / -- whose l-value is rooted at a
        variable with static storage (directly, through members or subscripts)."""
        if getattr(self, '_gw', None) is not None:
            return self._gw
        gw = {}
        for fn in self.fns.values():
            for n in fn.nodes.values():
                k = n['k']
                tgt = None
                if k in ('BinaryOperator', 'CompoundAssignOperator') and n.get('op', '').endswith('=') \
                        and n.get('op') not in ('==', '!=', '<=', '>='):
                    tgt = kids(n)[0]
                elif k == 'UnaryOperator' and n.get('op') in ('++', '--'):
                    tgt = kids(n)[0]
                if tgt is None:
                    continue
                r = lvalue_root(tgt)
                if r is not None and r['k'] == 'DeclRefExpr' and r.get('dk') in ('global', 'slocal'):
                    gw.setdefault(r['n'], []).append((fn, n))
        self._gw = gw
        return gw

    def functions(self, pred=None):
        for fn in self.fns.values():
            if pred is None or pred(fn):
                yield fn

    def fn(self, q, file=None):
        """The unique definition of q (optionally in file); AnalysisBroken when absent."""
        c = [f for f in self.by_q.get(q, ()) if file is None or f.file == file]
        if not c:
            raise build.AnalysisBroken('anchor function %s%s not found' % (q, ' in ' + file if file else ''))
        return c[0]

    def fn_opt(self, q, file=None):
        c = [f for f in self.by_q.get(q, ()) if file is None or f.file == file]
        return c[0] if c else None

    def global_def(self, q, file=None):
        """Definition (with initialiser when there is one) of a global."""
        c = [g for g in self.globals.get(q, ()) if file is None or g['file'] == file]
        c.sort(key=lambda g: (0 if 'init' in g else 1))
        if not c:
            raise build.AnalysisBroken('anchor variable %s not found' % q)
        return c[0]

"""R-DIV: every integer division / modulo has a divisor that is provably non-zero.

Discharge arguments, in order:
  1 non-zero constant divisor;
  2 interval / non-zero-fact analysis at the site (dominating `if (d != 0)`, ranges, masks);
  3 the divisor is a record field whose every store in the program (constructor initialisers included)
    assigns a provably non-zero value (field invariant: bytes_per_address, alignment copied from cpu_list);
  4 the divisor is a parameter and every call site passes a provably non-zero argument (one level);
  5 the divisor is a field of a constant table row selected by a type switch: minimum of that field over the
    rows whose switch field equals the governing case labels."""
from nk.facts import kids, strip, const, callee, ckey, call_args, show, walk
from nk.interval import Analyzer, FnIntervals, type_range, TOP, join
from nk import tables
from nk.report import Ob, RuleResult, DISCHARGED, VIOLATED, OBSERVATION
from nk.build import AnalysisBroken


class Ctx:
    def __init__(self, prog, an=None):
        self.prog = prog
        self.an = an or Analyzer(prog)
        self._fa = {}
        self._field = {}
        self._callers = None

    def fa(self, fn):
        if fn.key not in self._fa:
            self._fa[fn.key] = FnIntervals(self.an, fn)
        return self._fa[fn.key]

    def nonzero_at(self, fn, expr, at):
        fa = self.fa(fn)
        sts = fa.states_before(at)
        if not sts:
            return True     # unreachable code
        return all(fa.nonzero(expr, st) for st in sts)

    # ---- field invariants
    def field_nonzero(self, rec, field):
        key = (rec, field)
        if key in self._field:
            return self._field[key]
        self._field[key] = False   # cycle guard
        ok = True
        nstores = 0
        why = []
        # in-class initialiser / constructor initialisers / assignments anywhere
        r = self.prog.records.get(rec)
        if r:
            for f in r['fields']:
                if f['n'] == field and 'init' in f:
                    nstores += 1
                    if not (const(f['init']) or 0):
                        ok = False
        for fn in self.prog.fns.values():
            if fn.j.get('kind') == 'ctor' and fn.j.get('cls') == rec:
                inits = [i for i in fn.j.get('inits', ()) if i.get('field') == field]
                if not inits and not (r and any(f['n'] == field and 'init' in f for f in r['fields'])):
                    # constructor leaves it uninitialised unless assigned in the body: handled below
                    pass
                for i in inits:
                    nstores += 1
                    v = const(i.get('e')) if i.get('e') is not None else None
                    if v is None:
                        e = strip(i['e'], casts=True) if i.get('e') else None
                        if e is not None and e['k'] == 'InitListExpr' and kids(e):
                            v = const(kids(e)[0])
                    if not v:
                        ok = False
                        why.append('constructor initialises it with %s' % (show(i['e']) if i.get('e') else '?'))
            for n in fn.nodes.values():
                tgt = None
                if n['k'] in ('BinaryOperator', 'CompoundAssignOperator') and n.get('op', '').endswith('=') and \
                        n['op'] not in ('==', '!=', '<=', '>='):
                    tgt = strip(kids(n)[0])
                elif n['k'] == 'UnaryOperator' and n.get('op') in ('++', '--'):
                    tgt = strip(kids(n)[0])
                if tgt is None or tgt['k'] != 'MemberExpr' or tgt['n'] != field or tgt.get('rec') != rec:
                    continue
                nstores += 1
                if n['k'] != 'BinaryOperator' or n['op'] != '=':
                    ok = False
                    why.append('%s:%d modifies it with %s' % (fn.file, n['l'], n.get('op')))
                    continue
                rhs = kids(n)[1]
                if not self.nonzero_at(fn, rhs, n):
                    # a copy of the same field of another object keeps the invariant
                    rs = strip(rhs, casts=True)
                    if rs['k'] == 'MemberExpr' and rs['n'] == field:
                        continue
                    ok = False
                    why.append('%s:%d assigns `%s`' % (fn.file, n['l'], show(rhs)[:40]))
        res = (ok and nstores > 0, nstores, why)
        self._field[key] = res
        return res

    # ---- callers
    def callers(self, key):
        if self._callers is None:
            self._callers = {}
            for fn in self.prog.fns.values():
                for c in fn.calls():
                    k = ckey(c)
                    if k:
                        self._callers.setdefault(k, []).append((fn, c))
        return self._callers.get(key, [])


def table_case_min(prog, fn, node, divisor):
    """Argument 5: divisor `T[n].F` inside `switch (T[n].G)`: min of F over rows with G in the governing cases."""
    from rules.oracle import _case_regions
    d = strip(divisor, casts=True)
    if d['k'] != 'MemberExpr' or not kids(d):
        return None
    base = strip(kids(d)[0])
    if base['k'] != 'ArraySubscriptExpr':
        return None
    arr = strip(kids(base)[0])
    if arr['k'] != 'DeclRefExpr' or arr.get('dk') != 'global' or prog.global_writes().get(arr['n']):
        return None
    for a in fn.ancestors(node):
        if a['k'] != 'SwitchStmt':
            continue
        cond = None
        for b in fn.blocks.values():
            if b.get('term') == a['i']:
                cond = fn.nodes.get(b.get('cond'))
        if cond is None:
            continue
        c = strip(cond, casts=True)
        if c['k'] != 'MemberExpr' or arr['n'] not in show(c):
            continue
        regs = _case_regions(fn, a)
        labels = [v for v, stmts in regs.items() if any(node is x for s in stmts for x in walk(s))]
        if not labels or 'default' in labels:
            return None
        try:
            rws, fields, g = tables.rows(prog, arr['n'])
        except AnalysisBroken:
            return None
        vals = []
        for r in rws:
            if not r or tables.is_null(r.get(fields[0])):
                continue
            if const(r.get(c['n'])) in labels:
                v = const(r.get(d['n']))
                if v is None:
                    return None
                vals.append(v)
        if vals and min(vals) >= 1:
            return 'rows of %s with %s in the governing case labels have %s in [%d, %d]' % (
                arr['n'], c['n'], d['n'], min(vals), max(vals))
        return None
    return None


def div(prog, scope, floor, accepted=None, ctx=None):
    ctx = ctx or Ctx(prog)
    accepted = accepted or {}
    obs = []
    for fn in prog.functions(scope):
        if not fn.blocks:
            continue
        ordinal = 0
        for n in sorted(fn.nodes.values(), key=lambda x: x['i']):
            if n['k'] not in ('BinaryOperator', 'CompoundAssignOperator') or n.get('op') not in ('/', '%', '/=', '%='):
                continue
            if type_range(fn.type(n)) == TOP:
                continue
            ordinal += 1
            d = kids(n)[1]
            construct = '%s#%d' % (n['op'].rstrip('='), ordinal)
            txt = show(n)[:60]
            v = const(d)
            if v is not None:
                obs.append(Ob('R-DIV', fn.file, n['l'], fn.q, construct, DISCHARGED if v != 0 else VIOLATED,
                              'division by the constant 0' if v == 0 else '', 'constant divisor %d' % v, False))
                continue
            w = fn.block_of(n)
            if w is None or w[0] not in ctx.fa(fn).reached:
                continue
            if ctx.nonzero_at(fn, d, n):
                obs.append(Ob('R-DIV', fn.file, n['l'], fn.q, construct, DISCHARGED, '',
                              'divisor `%s` non-zero by range / dominating test' % show(d)[:30]))
                continue
            ds = strip(d, casts=True)
            arg = None
            if ds['k'] == 'MemberExpr' and ds.get('rec') and 'bits' not in ds:
                ok, ns, why = ctx.field_nonzero(ds['rec'], ds['n'])
                if ok:
                    arg = 'field invariant: all %d stores to %s::%s assign non-zero values' % (ns, ds['rec'], ds['n'])
            if arg is None and ds['k'] == 'DeclRefExpr' and ds.get('dk') == 'param':
                idx = [i for i, p in enumerate(fn.params()) if p['d'] == ds['d']]
                callers = ctx.callers(fn.key)
                reassigned = any(x['k'] in ('BinaryOperator', 'CompoundAssignOperator', 'UnaryOperator') and
                                 (x.get('op') in ('++', '--') or (x.get('op', '').endswith('=') and x['op'] not in ('==', '!=', '<=', '>=')))
                                 and strip(kids(x)[0]).get('d') == ds['d'] for x in fn.nodes.values())
                if idx and callers and not reassigned:
                    good = True
                    for cf, c in callers:
                        args = call_args(c)
                        if idx[0] >= len(args) or not ctx.nonzero_at(cf, args[idx[0]], c):
                            # recursive argument 5 on the caller's side
                            a5 = table_case_min(prog, cf, c, args[idx[0]]) if idx[0] < len(args) else None
                            if not a5:
                                good = False
                                break
                    if good:
                        arg = 'all %d call sites pass a non-zero `%s`' % (len(callers), ds['n'])
            if arg is None:
                arg = table_case_min(prog, fn, n, d)
            if arg:
                obs.append(Ob('R-DIV', fn.file, n['l'], fn.q, construct, DISCHARGED, '', arg))
                continue
            acc = accepted.get((fn.file, fn.q, construct))
            if acc:
                obs.append(Ob('R-DIV', fn.file, n['l'], fn.q, construct, DISCHARGED, '', 'accepted: ' + acc))
                continue
            obs.append(Ob('R-DIV', fn.file, n['l'], fn.q, construct, VIOLATED,
                          '`%s`: the divisor `%s` is not proven non-zero (no dominating test, range, field invariant, caller '
                          'argument or table argument applies): division by zero kills the process with SIGFPE' % (txt, show(d)[:30])))
    return RuleResult('R-DIV', obs, floor, {})


def div_ovf(prog, scope, floor=3):
    """DIV-OVF: a signed division or remainder whose divisor is not a constant cannot be MIN / -1 (the one quotient that
    does not fit: x86 raises SIGFPE for it exactly as for a zero divisor, also for %).  Discharged when the divisor's range
    excludes -1 (parameters of file-local helpers take the constants of their call sites), when the dividend's range
    excludes the type's minimum, or when a test `divisor == -1` with an arm that leaves dominates the division."""
    from nk.cfg import dominators
    from nk.interval import FnIntervals, Analyzer, join
    from rules.pagebase import _param_ranges
    an = Analyzer(prog)
    callers = {}
    for fn in prog.fns.values():
        if not fn.blocks:
            continue
        for c in fn.calls():
            if c.get('ck'):
                callers.setdefault(c['ck'], []).append((fn, c))
    obs = []
    for fn in sorted(prog.functions(scope), key=lambda f: (f.file, f.line)):
        if not fn.blocks:
            continue
        fa = None
        dom = None
        k = 0
        for n in sorted(fn.nodes.values(), key=lambda x: x['i']):
            if n['k'] not in ('BinaryOperator', 'CompoundAssignOperator') or n.get('op') not in ('/', '%', '/=', '%='):
                continue
            if const(kids(n)[1]) is not None:
                continue
            tr = type_range(fn.type(n))
            if tr == TOP or tr[0] >= 0:
                continue
            w = fn.where.get(n['i'])
            if w is None:
                continue
            if fa is None:
                # parameters start from the join of the argument ranges at all call sites of the program
                pr = {}
                sites = callers.get(fn.key, [])
                for (g, c) in sites:
                    ga = an._fa_cache(g)
                    for p_, a in zip(fn.params(), call_args(c)):
                        if type_range(fn.types[p_['t']] if isinstance(p_.get('t'), int) else '') == TOP:
                            continue
                        iv = ga.eval_at(a, c)
                        pr[p_['d']] = iv if p_['d'] not in pr else join(pr[p_['d']], iv)
                pr = {d: v for d, v in pr.items() if v[0] is not None and v[1] is not None} if sites else {}
                fa = FnIntervals(an, fn, param_init=pr) if pr else an._fa_cache(fn)
            if w[0] not in fa.reached:
                continue
            k += 1
            dv = fa.eval_at(kids(n)[1], n)
            nv = fa.eval_at(kids(n)[0], n)
            construct = '%s#%d' % (n['op'].rstrip('='), k)
            why = None
            if dv[0] is not None and dv[1] is not None and (dv[0] > -1 or dv[1] < -1):
                why = 'divisor in %s: never -1' % (dv,)
            elif nv[0] is not None and nv[0] > tr[0]:
                why = 'dividend in %s: never the minimum of its type' % (nv,)
            else:
                if dom is None:
                    dom = dominators(fn)
                dtxt = show(strip(kids(n)[1], casts=True))
                reach = None
                for b in dom[w[0]]:
                    cn = fn.nodes.get(fn.blocks[b].get('cond')) if 'cond' in fn.blocks[b] else None
                    if cn is None:
                        continue
                    c_ = strip(cn)
                    if c_['k'] == 'BinaryOperator' and c_.get('op') in ('==', '!=') and const(kids(c_)[1]) == -1 and \
                            show(strip(kids(c_)[0], casts=True)) == dtxt:
                        # the edge taken when divisor == -1 must not reach the division
                        idx = 0 if c_['op'] == '==' else 1
                        tgt = fn.blocks[b]['s'][idx] if len(fn.blocks[b]['s']) == 2 else None
                        if tgt is not None:
                            seen = set()
                            st = [tgt]
                            while st:
                                x = st.pop()
                                if x in seen or x is None:
                                    continue
                                seen.add(x)
                                st.extend(fn.succs(x))
                            if w[0] not in seen:
                                why = '`%s` is handled before the division (line %d)' % (show(c_), cn['l'])
            obs.append(Ob('DIV-OVF', fn.file, n['l'], fn.q, construct, DISCHARGED if why else VIOLATED,
                          '' if why else '`%s` is a signed division with divisor range %s and dividend range %s: the minimum of the type '
                          'divided by -1 does not fit and raises SIGFPE (also for %%), like a division by zero' % (show(n)[:50], dv, nv),
                          why or ''))
    if len(obs) < floor:
        raise AnalysisBroken('DIV-OVF: only %d signed divisions by a variable in scope' % len(obs))
    return RuleResult('DIV-OVF', obs, floor, {})

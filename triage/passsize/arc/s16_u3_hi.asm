.arc
start:
  add_s r0, r0, fwd
after:
  nop_s
.set fwd=200

"""Obligations, known findings, evidence files, exit protocol."""
import json
import os
import sys
import time

VERIF = os.path.dirname(os.path.dirname(os.path.abspath(__file__)))
KNOWN = os.path.join(VERIF, 'known_findings.jsonl')

DISCHARGED = 'discharged'
VIOLATED = 'violated'
OBSERVATION = 'observation'


class Ob:
    """One rule instance found in the source.

    key: stable descriptor (rule, unit-file, function, construct) — no line numbers.
    status: discharged | violated | observation.
    nontrivial: the discharge needed a path query / interval proof / table comparison.
    """
    __slots__ = ('rule', 'file', 'line', 'function', 'construct', 'status', 'detail', 'argument', 'nontrivial')

    def __init__(self, rule, file, line, function, construct, status, detail='', argument='', nontrivial=True):
        self.rule, self.file, self.line, self.function = rule, file, line, function
        self.construct, self.status, self.detail, self.argument = construct, status, detail, argument
        self.nontrivial = nontrivial

    def key(self):
        return (self.rule, self.file, self.function, self.construct)

    def as_dict(self):
        return {'rule': self.rule, 'where': '%s:%s' % (self.file, self.line), 'function': self.function,
                'construct': self.construct, 'status': self.status, 'detail': self.detail,
                'argument': self.argument}


def load_known():
    """known_findings.jsonl: JSON lines (findings) and 'fixed: …' text lines (suppress nothing)."""
    out = []
    if not os.path.exists(KNOWN):
        return out
    for line in open(KNOWN):
        line = line.strip()
        if not line or line.startswith('#') or line.startswith('fixed:'):
            continue
        out.append(json.loads(line))
    return out


class RuleResult:
    def __init__(self, rule, obs, floor=None, analysed=None, note=''):
        self.rule, self.obs, self.floor, self.analysed, self.note = rule, obs, floor, analysed or {}, note


def finish(prop, tier, results, explanation, assumptions, trusted_base, t0, level='other', seed=0,
           observations=None, extra=None):
    """Write evidence, print KNOWN-FINDING / VIOLATION lines, return exit code."""
    known = [k for k in load_known() if k.get('property') == prop]
    known_keys = {(k['rule'], k['file'], k['function'], k['construct']): k for k in known}
    all_obs = []
    broken = []
    per_rule = {}
    for r in results:
        armed = [o for o in r.obs if o.status != OBSERVATION]
        per_rule[r.rule] = {'instances': len(armed), 'floor': r.floor,
                            'violated': sum(1 for o in armed if o.status == VIOLATED),
                            'observations': sum(1 for o in r.obs if o.status == OBSERVATION),
                            'analysed': r.analysed, 'note': r.note}
        if r.floor is not None and len(armed) < r.floor:
            broken.append('rule %s matched %d instances, below its confirmed floor %d' % (r.rule, len(armed), r.floor))
        all_obs += r.obs
    viol = [o for o in all_obs if o.status == VIOLATED]
    listed, unlisted = [], []
    seen_keys = set()
    for o in viol:
        k = known_keys.get(o.key())
        if k is not None:
            listed.append((o, k))
            seen_keys.add(o.key())
        else:
            unlisted.append(o)
    obligations = sum(1 for o in all_obs if o.status != OBSERVATION)
    discharged = sum(1 for o in all_obs if o.status == DISCHARGED)
    nontriv = len({o.key() for o in all_obs if o.status != OBSERVATION and o.nontrivial})
    samples = []
    byrule = {}
    for o in all_obs:
        byrule.setdefault((o.rule, o.status), []).append(o)
    for (rule, status), lst in sorted(byrule.items()):
        for o in lst[:3]:
            samples.append(o.as_dict())
    viol_dir = os.path.join(VERIF, 'evidence', 'violations')
    if os.environ.get('NK_NO_EVIDENCE'):
        viol_dir = os.path.join(VERIF, '.work', 'violations')
    replay_paths = []
    if unlisted:
        os.makedirs(viol_dir, exist_ok=True)
    # remove stale replay files of this property
    if os.path.isdir(viol_dir):
        for n in os.listdir(viol_dir):
            if n.startswith(prop + '-'):
                os.remove(os.path.join(viol_dir, n))
    for i, o in enumerate(unlisted):
        p = os.path.join(viol_dir, '%s-%d.json' % (prop, i))
        with open(p, 'w') as f:
            json.dump(dict(o.as_dict(), property=prop), f, indent=1)
        replay_paths.append(p)
    ev = {
        'property_id': prop, 'tier': tier, 'seed': seed, 'level': level,
        'coverage': {
            'obligations': obligations, 'discharged': discharged,
            'known_findings': len(listed), 'unlisted_violations': len(unlisted),
            'evaluations': max(obligations, 1), 'distinct_nontrivial': nontriv,
            'rule': 'every instance of each rule in the current source is enumerated from the type-checked '
                    'program (AST/CFG/IR facts); an instance is distinct by (rule, file, function, construct) and '
                    'non-trivial when its verdict needed a path query, value-range argument or table comparison',
            'checker_cmd': './check %s --tier %s' % (prop, tier),
            'trusted_base': trusted_base,
            'explanation': explanation,
            'exhaustive': True,
            'per_rule': per_rule,
            'samples': samples,
            'observations': [o.as_dict() for o in all_obs if o.status == OBSERVATION][:60] + (observations or []),
            'known_finding_keys': [list(o.key()) for o, _ in listed],
        },
        'assumptions': assumptions,
        'wall_s': round(time.time() - t0, 2),
        'violations': len(unlisted),
    }
    if extra:
        ev['coverage'].update(extra)
    if broken:
        ev['coverage']['analysis_broken'] = broken
    if not os.environ.get('NK_NO_EVIDENCE'):
        os.makedirs(os.path.join(VERIF, 'evidence'), exist_ok=True)
        with open(os.path.join(VERIF, 'evidence', prop + '.json'), 'w') as f:
            json.dump(ev, f, indent=1)
    for o, k in listed:
        print('KNOWN-FINDING: property=%s %s %s %s [%s] %s' % (prop, o.rule, o.file, o.function, o.construct,
                                                             k.get('what_fails', o.detail)))
    for k in known:
        kk = (k['rule'], k['file'], k['function'], k['construct'])
        if kk not in seen_keys:
            print('note: listed finding no longer reported: %s %s %s [%s]' % kk)
    for o, p in zip(unlisted, replay_paths):
        print('%s:%s: %s: in %s: %s — %s' % (o.file, o.line, o.rule, o.function, o.construct, o.detail))
        print('VIOLATION property=%s replay=%s' % (prop, p))
    print('%s: %d obligations, %d discharged, %d known findings, %d violations, %d observations (%.1fs)' % (
        prop, obligations, discharged, len(listed), len(unlisted),
        sum(1 for o in all_obs if o.status == OBSERVATION), time.time() - t0))
    for r in results:
        pr = per_rule[r.rule]
        print('  %-10s instances=%d floor=%s violated=%d' % (r.rule, pr['instances'], pr['floor'], pr['violated']))
    if broken:
        for b in broken:
            print('ANALYSIS-BROKEN: ' + b)
        # a violation found by an armed instance stands even when another rule lost its anchors
        return 1 if unlisted else 2
    return 1 if unlisted else 0

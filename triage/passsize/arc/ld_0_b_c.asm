.arc
start:
  ld fwd, [r1, r2]
after:
  nop_s
.set fwd=3

"""Error discipline: R-ERR1 (discarded error result), R-ERR2 (diagnostic then success),
R-ERR3 (main turns every error into exit!=0 + unlink), R-ERR4 (side channels are read)."""
import json
import os
from nk.facts import kids, strip, const, callee, ckey, show, walk, call_args
from nk.cfg import forward_paths
from nk.report import Ob, RuleResult, DISCHARGED, VIOLATED, OBSERVATION
from nk.build import AnalysisBroken

HERE = os.path.dirname(os.path.abspath(__file__))

DIAG_FUNCS = {
    'print_error', 'print_error_unexp', 'print_error_expecting', 'print_error_unknown_instr',
    'print_error_opcount', 'print_error_illegal_operands', 'print_error_illegal_expression',
    'print_error_illegal_register', 'print_error_range', 'print_error_unknown_operand_combo',
    'print_error_internal', 'print_already_defined', 'print_not_defined', 'print_error_align',
}
PRINTF_LIKE = {'printf': 0, 'fprintf': 1}


def is_diag_call(n):
    """Is this call node a diagnostic emitter call?  Returns a descriptor or None."""
    c = callee(n)
    if c is None:
        return None
    if c in DIAG_FUNCS:
        return c
    if c in PRINTF_LIKE:
        args = call_args(n)
        i = PRINTF_LIKE[c]
        if len(args) > i:
            a = strip(args[i], casts=True)
            if a['k'] == 'StringLiteral':
                s = a.get('s', '')
                if s.startswith('Error') or s.startswith('Internal Error') or s.startswith('Internal error'):
                    return c + ':' + s.split('\n')[0][:40]
    return None


def load_table(name):
    p = os.path.join(HERE, name)
    with open(p) as f:
        return json.load(f)


class ErrValues:
    """Per-function error values: what a `return` must yield to signal failure."""

    def __init__(self, prog, table):
        self.prog = prog
        # function qname -> list of accepted named/numeric error constants (frozen, with reasons)
        self.named = {e['function']: e for e in table.get('named_error_returns', [])}

    def is_error_return(self, fn, ret, env=None):
        """ret: ReturnStmt node.  True when the returned value signals failure."""
        c = kids(ret)
        rt = fn.ret_type()
        if not c or c[0] is None:
            return False
        e = strip(c[0], casts=True)
        v = const(c[0])
        if v is None:
            v = const(e)
        ent = self.named.get(fn.key)
        if v is not None:
            if ent and v in ent['values']:
                return True
            if rt.endswith('*'):
                return v == 0
            if rt == 'bool':
                return v == 0
            if rt.startswith('unsigned') or rt in ('uint32_t', 'uint16_t', 'uint8_t'):
                return False
            return v < 0
        if e['k'] in ('CXXNullPtrLiteralExpr', 'GNUNullExpr'):
            return True
        if e['k'] == 'DeclRefExpr' and env is not None and e['d'] in env:
            x = env[e['d']]
            if x == 'null':
                return True
            if ent and x in ent['values']:
                return True
            return _errval(fn, x, fn.q == 'main')
        return False


def _assigned_const(n):
    """For `v = K` / DeclStmt `T v = K` elements: yield (decl id, value-or-None)."""
    if n['k'] == 'BinaryOperator' and n.get('op') == '=':
        l = strip(kids(n)[0])
        if l['k'] == 'DeclRefExpr':
            yield l['d'], const(kids(n)[1]), kids(n)[1]
    elif n['k'] == 'DeclStmt':
        inits = [c for c in kids(n)]
        ds = [d for d in n.get('decls', ()) if d.get('init')]
        if len(ds) == len(inits):
            for d, i in zip(ds, inits):
                yield d['d'], const(i), i


def err2(prog, scope_files, table, floor):
    """R-ERR2: after a diagnostic call every path reaches a failure marker."""
    ev = ErrValues(prog, table)
    accepted = {(a['file'], a['function'], a['construct']): a for a in table.get('accepted', [])}
    obs = []
    nfun = 0
    # void functions whose only job is to print (the emitters themselves + frozen wrappers)
    emitters = set(DIAG_FUNCS) | set(table.get('void_reporters', {}).keys())
    for fn in prog.functions(scope_files):
        if fn.q in emitters:
            continue
        if not fn.blocks:
            continue
        nfun += 1
        ordinal = {}
        is_main = fn.q == 'main'
        reach = fn.reachable_blocks()
        for call in sorted((c for c in fn.calls()), key=lambda n: n['i']):
            d = is_diag_call(call)
            if d is None and callee(call) in table.get('void_reporters', {}):
                d = callee(call)
            if d is None:
                continue
            nm = d.split(':')[0]
            k = ordinal[nm] = ordinal.get(nm, 0) + 1
            construct = '%s#%d' % (nm, k)
            w = fn.where.get(call['i'])
            if w is None:
                # call not in CFG: unreachable code (clang prunes it)
                obs.append(Ob('R-ERR2', fn.file, call['l'], fn.q, construct, DISCHARGED,
                              'diagnostic in CFG-unreachable code', 'unreachable', False))
                continue
            if w[0] not in reach:
                obs.append(Ob('R-ERR2', fn.file, call['l'], fn.q, construct, DISCHARGED,
                              'diagnostic in CFG-unreachable code', 'unreachable', False))
                continue
            inf = default_infeasible(prog, fn, call)
            if inf:
                obs.append(Ob('R-ERR2', fn.file, call['l'], fn.q, construct, DISCHARGED,
                              show(call)[:80], inf))
                continue
            bad = _paths_after(fn, w, ev, is_main, branch_env(fn, w[0], ev, is_main))
            if not bad:
                obs.append(Ob('R-ERR2', fn.file, call['l'], fn.q, construct, DISCHARGED,
                              show(call)[:80], 'every path from the diagnostic reaches an error return / '
                              'error_count++ / error=1 / exit(!=0)'))
                continue
            acc = accepted.get((fn.file, fn.q, construct))
            what = '; '.join(sorted({'%s at line %s' % (r, (n or {}).get('l', fn.end)) for r, n in bad}))
            if acc:
                obs.append(Ob('R-ERR2', fn.file, call['l'], fn.q, construct, DISCHARGED,
                              show(call)[:80], 'accepted idiom: ' + acc['reason']))
            else:
                obs.append(Ob('R-ERR2', fn.file, call['l'], fn.q, construct, VIOLATED,
                              'diagnostic %s is followed by a path that reports success: %s' % (show(call)[:70], what)))
    return RuleResult('R-ERR2', obs, floor, {'functions': nfun})


def _is_marker(n, fn):
    """Failure markers other than returns."""
    k = n['k']
    if k == 'UnaryOperator' and n.get('op') == '++':
        t = strip(kids(n)[0])
        if t['k'] == 'MemberExpr' and t['n'] == 'error_count':
            return True
    if k == 'BinaryOperator' and n.get('op') == '=':
        l = strip(kids(n)[0])
        if l['k'] == 'MemberExpr' and l['n'] == 'error' and l.get('rec') == 'AsmContext':
            v = const(kids(n)[1])
            if v is not None and v != 0:
                return True
    if k == 'CallExpr' and callee(n) in ('exit', '_exit', 'abort'):
        if callee(n) == 'abort':
            return True
        a = call_args(n)
        v = const(a[0]) if a else None
        if v is not None and v != 0:
            return True
    return False


def _errval(fn, v, is_main):
    rt = fn.ret_type()
    if is_main:
        return v != 0
    if rt.endswith('*') or rt == 'bool':
        return v == 0
    return v < 0


def branch_env(fn, bid, ev, is_main):
    """Facts `x == K` that hold on entry to block bid: walk up through unique predecessors whose
    terminator is `if (x == K)` with bid's chain on the true edge (the diagnostic is control-dependent
    on the equality)."""
    env = {}
    preds = fn.preds()
    cur = bid
    for _ in range(6):
        ps = preds.get(cur, [])
        if len(ps) != 1:
            break
        p = ps[0]
        b = fn.blocks[p]
        cond = fn.nodes.get(b.get('cond'))
        if cond is not None and b.get('termk') == 'IfStmt':
            c = strip(cond)
            if c['k'] == 'BinaryOperator' and c.get('op') == '==' and b['s'] and b['s'][0] == cur:
                l, r = strip(kids(c)[0]), kids(c)[1]
                if l['k'] == 'DeclRefExpr' and const(r) is not None and l['d'] not in env:
                    # the variable must not be assigned between the test and the diagnostic: blocks on
                    # this chain only hold the diagnostic call in the cases accepted (checked by caller env kill)
                    env[l['d']] = const(r)
        cur = p
    return frozenset(env.items())


def _default_only_switches(fn):
    """For each switch with a default label: (switch node, dispatch block id, blocks reachable ONLY through the
    dispatch->default edge).  Cached per function."""
    cache = getattr(fn, '_defonly', None) if hasattr(fn, '_defonly') else None
    res = []
    for b in fn.blocks.values():
        if b.get('termk') != 'SwitchStmt':
            continue
        sw = fn.nodes.get(b.get('term'))
        if sw is None:
            continue
        bdef = None
        for s_ in b['s']:
            if s_ is None:
                continue
            lab = fn.nodes.get(fn.blocks[s_].get('label'))
            if lab is not None and lab['k'] == 'DefaultStmt':
                bdef = s_
        if bdef is None:
            continue
        # reachability from entry without the edge dispatch -> default
        seen = {fn.entry}
        st = [fn.entry]
        while st:
            x = st.pop()
            for y in fn.succs(x):
                if x == b['id'] and y == bdef:
                    continue
                if y not in seen:
                    seen.add(y)
                    st.append(y)
        only = set(fn.reachable_blocks()) - seen
        res.append((sw, b['id'], only))
    return res


_def_cache = {}
_dead_cache = {}


def dead_default_edges(prog, fn):
    """(dispatch, default-block) edges of switches whose default is infeasible (see default_infeasible)."""
    if fn.key in _dead_cache:
        return _dead_cache[fn.key]
    out = set()
    _dead_cache[fn.key] = out
    for b in fn.blocks.values():
        if b.get('termk') != 'SwitchStmt':
            continue
        for s_ in b['s']:
            if s_ is None:
                continue
            lab = fn.nodes.get(fn.blocks[s_].get('label'))
            if lab is not None and lab['k'] == 'DefaultStmt':
                first = None
                for e in fn.blocks[s_]['e']:
                    first = fn.nodes.get(e)
                    if first is not None:
                        break
                if first is not None and default_infeasible(prog, fn, first):
                    out.add((b['id'], s_))
    return out


def default_infeasible(prog, fn, call):
    """A statement that is reachable only through the `default:` edge of `switch (table[n].field)` is infeasible
    when every value of that field, over the rows of the never-written table that can reach the switch (rows
    excluded by a dominating `table[n].g == K -> continue` guard are left out), has its own `case`."""
    from nk import tables
    from nk.cfg import dominators
    w = fn.block_of(call)
    if w is None:
        return None
    key = fn.key
    if key not in _def_cache:
        _def_cache[key] = _default_only_switches(fn)
    sw = None
    for cand, dispatch, only in _def_cache[key]:
        if w[0] in only:
            if sw is None or len(only) < len(sw[2]):
                sw = (cand, dispatch, only)
    if sw is None:
        return None
    sw, dispatch, _ = sw
    cond = fn.nodes.get(fn.blocks[dispatch].get('cond'))
    if cond is None:
        return None
    c = strip(cond, casts=True)
    if c['k'] == 'DeclRefExpr' and c.get('dk') == 'local':
        # `int type = table[n].type; switch (type)`: the only definition of the local is its initialiser
        d = c['d']
        init = None
        for n in fn.nodes.values():
            if n['k'] == 'DeclStmt':
                ds = [x for x in n.get('decls', ()) if x.get('init')]
                for x, i in zip(ds, kids(n)):
                    if x['d'] == d:
                        init = i
            elif n['k'] in ('BinaryOperator', 'CompoundAssignOperator', 'UnaryOperator') and \
                    (n.get('op') in ('++', '--') or (n.get('op', '').endswith('=') and n['op'] not in ('==', '!=', '<=', '>='))):
                t = strip(kids(n)[0])
                if t['k'] == 'DeclRefExpr' and t['d'] == d:
                    return None
            elif n['k'] == 'UnaryOperator' and n.get('op') == '&':
                t = strip(kids(n)[0])
                if t['k'] == 'DeclRefExpr' and t['d'] == d:
                    return None
        if init is None:
            return None
        c = strip(init, casts=True)
    if c['k'] != 'MemberExpr' or not kids(c):
        return None
    base = strip(kids(c)[0])
    if base['k'] != 'ArraySubscriptExpr':
        return None
    arr = strip(kids(base)[0])
    if arr['k'] != 'DeclRefExpr' or arr.get('dk') != 'global':
        return None
    try:
        rws, fields, g = tables.rows(prog, arr['n'])
    except AnalysisBroken:
        return None
    if not g.get('const') and prog.global_writes().get(arr['n']):
        return None
    field = c['n']
    # guards `table[n].g == K` dominating the switch whose true edge cannot reach it
    excluded = []
    if fn._dom is None:
        fn._dom = dominators(fn)
    dom = fn._dom
    for bid in dom.get(dispatch, ()):
        b = fn.blocks[bid]
        gc = fn.nodes.get(b.get('cond'))
        if gc is None or b.get('termk') != 'IfStmt' or len(b['s']) != 2:
            continue
        gcs = strip(gc)
        if gcs['k'] != 'BinaryOperator' or gcs.get('op') not in ('==', '!='):
            continue
        l, k0 = strip(kids(gcs)[0], casts=True), const(kids(gcs)[1])
        if k0 is None or l['k'] != 'MemberExpr' or not kids(l):
            continue
        lb = strip(kids(l)[0])
        if lb['k'] != 'ArraySubscriptExpr' or strip(kids(lb)[0]).get('n') != arr['n']:
            continue
        t_edge, f_edge = b['s']
        def reaches(src):
            if src is None:
                return False
            seen = {src}
            st = [src]
            while st:
                x = st.pop()
                if x == dispatch:
                    return True
                if x == bid:
                    continue
                for y in fn.succs(x):
                    if y not in seen:
                        seen.add(y)
                        st.append(y)
            return False
        rt, rf = reaches(t_edge), reaches(f_edge)
        if gcs['op'] == '==' and rf and not rt:
            excluded.append((l['n'], k0, True))      # rows with g == K never reach the switch
        elif gcs['op'] == '!=' and rt and not rf:
            excluded.append((l['n'], k0, True))
        elif gcs['op'] == '!=' and rf and not rt:
            excluded.append((l['n'], k0, False))     # only rows with g == K reach it
        elif gcs['op'] == '==' and rt and not rf:
            excluded.append((l['n'], k0, False))
    vals = set()
    for r in rws:
        if not r:
            continue
        v = const(r.get(field))
        if v is None:
            return None
        # the sentinel row (null mnemonic) never reaches the switch
        first = r.get(fields[0])
        if tables.is_null(first):
            continue
        skip = False
        for gname, k0, eq_excluded in excluded:
            gv = const(r.get(gname)) if r.get(gname) is not None else None
            if gv is None:
                continue
            if eq_excluded and gv == k0:
                skip = True
            if not eq_excluded and gv != k0:
                skip = True
        if skip:
            continue
        vals.add(v)
    cases = set()
    st = list(kids(sw))
    while st:
        x = st.pop()
        if x is None or x['k'] == 'SwitchStmt':
            continue
        if x['k'] == 'CaseStmt':
            if 'v' not in x:
                return None
            lo, hi = x['v'], x.get('v2', x['v'])
            cases.update(range(lo, hi + 1))
        st.extend(kids(x))
    missing = vals - cases
    if missing:
        return None
    return 'default branch infeasible: all %d values of %s[].%s that reach this switch have a case' % (len(vals), arr['n'], field)


def _paths_after(fn, w, ev, is_main, env0=frozenset()):
    """Path exploration with a tiny constant environment for `ret = -1; … return ret;`."""
    bad = []
    # only variables that some `return v;` returns are tracked (keeps the state space small)
    retvars = set()
    for n in fn.nodes.values():
        if n['k'] == 'ReturnStmt' and kids(n):
            e = strip(kids(n)[0], casts=True)
            if e['k'] == 'DeclRefExpr':
                retvars.add(e['d'])
    env0 = frozenset((d, v) for d, v in env0 if d in retvars)
    # state: (block, idx, frozenset(env items)); env maps decl -> known constant value
    start = (w[0], w[1] + 1, env0)
    seen = set()
    work = [start]
    steps = 0
    while work:
        bid, idx, envf = work.pop()
        if (bid, idx, envf) in seen:
            continue
        seen.add((bid, idx, envf))
        steps += 1
        if steps > 20000:
            raise AnalysisBroken('R-ERR2 path explosion in %s' % fn.q)
        env = dict(envf)
        b = fn.blocks[bid]
        stopped = False
        for e in b['e'][idx:]:
            n = fn.nodes.get(e)
            if n is None:
                continue
            if _is_marker(n, fn):
                stopped = True
                break
            if n['k'] == 'ReturnStmt':
                if is_main:
                    # main: any non-zero is failure
                    v = const(kids(n)[0]) if kids(n) else None
                    if v is not None and v != 0:
                        stopped = True
                        break
                if ev.is_error_return(fn, n, env):
                    stopped = True
                    break
                # return f(...) where the callee itself always fails is not modelled: report
                bad.append(('return %s' % (show(kids(n)[0])[:40] if kids(n) else ''), n))
                stopped = True
                break
            for d, v, rhs in _assigned_const(n):
                if d not in retvars:
                    continue
                if v is not None:
                    env[d] = v
                else:
                    r = strip(rhs, casts=True)
                    if r['k'] in ('CXXNullPtrLiteralExpr', 'GNUNullExpr'):
                        env[d] = 'null'
                    else:
                        env.pop(d, None)
            if n['k'] in ('CompoundAssignOperator', 'UnaryOperator') and n.get('op') in (
                    '+=', '-=', '|=', '&=', '++', '--', '*=', '/=', '<<=', '>>=', '^=', '%='):
                t = strip(kids(n)[0])
                if t['k'] == 'DeclRefExpr':
                    env.pop(t['d'], None)
        if stopped:
            continue
        if b.get('noreturn'):
            continue
        if bid == fn.exit:
            if fn.ret_type() == 'void':
                bad.append(('falls off the end of a void function', None))
            continue
        # branch refinement on `x == K` / `x != K`
        cond = fn.nodes.get(b.get('cond'))
        succ = b['s']
        refined = False
        if cond is not None and b.get('termk') == 'IfStmt' and len(succ) == 2:
            c = strip(cond)
            if c['k'] == 'BinaryOperator' and c.get('op') in ('==', '!='):
                l, r = strip(kids(c)[0]), const(kids(c)[1])
                if l['k'] == 'DeclRefExpr' and r is not None and l['d'] in retvars:
                    eq_edge, ne_edge = (succ[0], succ[1]) if c['op'] == '==' else (succ[1], succ[0])
                    known = env.get(l['d'])
                    refined = True
                    if known is not None and known != 'null':
                        tgt = eq_edge if known == r else ne_edge
                        if tgt is not None:
                            work.append((tgt, 0, frozenset(env.items())))
                    else:
                        if ne_edge is not None:
                            work.append((ne_edge, 0, frozenset(env.items())))
                        if eq_edge is not None:
                            e2 = dict(env)
                            e2[l['d']] = r
                            work.append((eq_edge, 0, frozenset(e2.items())))
        if not refined:
            envf2 = frozenset(env.items())
            for s in fn.succs(bid):
                work.append((s, 0, envf2))
    return bad


# --------------------------------------------------------------------- R-ERR1
STMT_PARENTS = ('CompoundStmt', 'IfStmt', 'WhileStmt', 'ForStmt', 'DoStmt', 'CaseStmt', 'DefaultStmt',
                'LabelStmt', 'SwitchStmt')


def cond_ids(fn):
    s = set()
    for b in fn.blocks.values():
        if 'cond' in b:
            s.add(b['cond'])
    return s


def result_use(fn, call, conds=None):
    """How the value of a call expression is used: 'discarded', 'void-cast', ('assigned', decl) or 'used'."""
    if conds is None:
        conds = cond_ids(fn)
    n = call
    while True:
        p = fn.parent.get(n['i'])
        if p is None:
            return 'discarded'
        if p['k'] in ('ParenExpr', 'ImplicitCastExpr', 'ExprWithCleanups', 'ConstantExpr'):
            n = p
            continue
        break
    if p['k'] in STMT_PARENTS:
        if n['i'] in conds:
            return 'used'
        return 'discarded'
    if p['k'] == 'CStyleCastExpr' and fn.type(p) == 'void':
        return 'void-cast'
    if p['k'] == 'BinaryOperator' and p.get('op') == '=' and kids(p)[1] is n:
        l = strip(kids(p)[0])
        if l['k'] == 'DeclRefExpr' and l.get('dk') in ('local', 'param'):
            return ('assigned', l['d'], l['n'])
        return 'used'
    if p['k'] == 'BinaryOperator' and p.get('op') == ',' and kids(p)[0] is n:
        return 'discarded'
    if p['k'] == 'DeclStmt':
        ds = [d for d in p.get('decls', ()) if d.get('init')]
        inits = list(kids(p))
        for d, i in zip(ds, inits):
            if i is n:
                return ('assigned', d['d'], d['n'])
    return 'used'


def reads_of(fn, decl):
    """Number of references to a local that are not the target of a plain assignment."""
    cnt = 0
    for n in fn.nodes.values():
        if n['k'] == 'DeclRefExpr' and n.get('d') == decl:
            p = fn.parent.get(n['i'])
            if p is not None and p['k'] == 'BinaryOperator' and p.get('op') == '=' and kids(p)[0] is n:
                continue
            cnt += 1
    return cnt


def error_functions(prog, table, scope_files=None):
    """F_err: functions with a CFG-reachable return of an error value (int-like results)."""
    ev = ErrValues(prog, table)
    ferr = {}
    for fn in prog.functions():
        rt = fn.ret_type()
        if rt == 'void' or rt.endswith('*') or rt == 'bool':
            continue
        if not fn.blocks:
            continue
        reach = fn.reachable_blocks()
        vals = set()
        for n in fn.nodes.values():
            if n['k'] != 'ReturnStmt':
                continue
            w = fn.where.get(n['i'])
            if w is None or w[0] not in reach:
                continue
            if ev.is_error_return(fn, n):
                v = const(kids(n)[0])
                vals.add(v)
        if vals:
            ferr.setdefault(fn.key, []).append((fn, vals))
    return ferr


def err1(prog, scope_files, table, floor):
    """R-ERR1: the result of an error-returning function is never dropped."""
    ferr = error_functions(prog, table)
    sentinel = table.get('not_error_results', {})
    accepted = {(a['file'], a['function'], a['construct']): a for a in table.get('accepted_discards', [])}
    obs = []
    ncalls = 0
    for fn in prog.functions(scope_files):
        if not fn.blocks:
            continue
        conds = cond_ids(fn)
        reach = fn.reachable_blocks()
        ordinal = {}
        for call in sorted(fn.calls(), key=lambda n: n['i']):
            c = ckey(call)
            if c is None or c not in ferr:
                continue
            if c in sentinel:
                continue
            short = c.split('@')[0].split('(')[0].split('::')[-1]
            k = ordinal[short] = ordinal.get(short, 0) + 1
            construct = '%s#%d' % (short, k)
            ncalls += 1
            w = fn.block_of(call)
            if w is None or w[0] not in reach:
                continue
            use = result_use(fn, call, conds)
            if use == 'used':
                obs.append(Ob('R-ERR1', fn.file, call['l'], fn.q, construct, DISCHARGED, '', 'result examined', False))
                continue
            if use == 'void-cast':
                obs.append(Ob('R-ERR1', fn.file, call['l'], fn.q, construct, DISCHARGED, '', '(void) cast', False))
                continue
            if isinstance(use, tuple):
                if reads_of(fn, use[1]) > 0:
                    obs.append(Ob('R-ERR1', fn.file, call['l'], fn.q, construct, DISCHARGED, '',
                                  'stored in %s which is read later' % use[2], False))
                    continue
                detail = 'result of %s stored in %s and never examined' % (c, use[2])
            else:
                detail = 'result of %s (can return an error value) is discarded' % c
            acc = accepted.get((fn.file, fn.q, construct))
            if acc:
                obs.append(Ob('R-ERR1', fn.file, call['l'], fn.q, construct, DISCHARGED, detail,
                              'accepted: ' + acc['reason']))
            else:
                obs.append(Ob('R-ERR1', fn.file, call['l'], fn.q, construct, VIOLATED, detail))
    return RuleResult('R-ERR1', obs, floor, {'error_returning_functions': len(ferr), 'call_sites': ncalls})


# --------------------------------------------------------------------- R-ERR3
def _main_fn(prog):
    return prog.fn('main', 'main/naken_asm.cpp')


def err3(prog):
    """R-ERR3: in naken_asm's main() every failure of assemble()/link()/file_write reaches a non-zero exit
    status with the output file unlinked, and file_write is reachable only after two successful passes."""
    fn = _main_fn(prog)
    obs = []
    # the status variable: the local read by the final return expression
    rets = [n for n in fn.nodes.values() if n['k'] == 'ReturnStmt' and fn.where.get(n['i'])]
    status = None
    for r in rets:
        for x in walk(r):
            if x['k'] == 'DeclRefExpr' and x.get('dk') == 'local':
                status = x['d']
    calls = {}
    for c in fn.calls():
        calls.setdefault(callee(c), []).append(c)
    for need in ('AsmContext::assemble', 'AsmContext::link', 'file_write', 'unlink'):
        if need not in calls:
            raise AnalysisBroken('R-ERR3: main() of naken_asm no longer calls %s' % need)
    if status is None:
        raise AnalysisBroken('R-ERR3: cannot identify the exit-status variable of main()')
    fw = calls['file_write'][0]
    outvar = strip(call_args(fw)[0], casts=True)
    outdecl = outvar.get('d') if outvar['k'] == 'DeclRefExpr' else None
    first_asm = min(calls['AsmContext::assemble'], key=lambda n: n['i'])
    start = fn.where.get(first_asm['i'])
    if start is None:
        raise AnalysisBroken('R-ERR3: first assemble() call not in CFG')

    def is_status(n):
        n = strip(n, casts=True)
        return n['k'] == 'DeclRefExpr' and n.get('d') == status

    def contains_call(n, name):
        return any(callee(x) == name for x in walk(n))

    problems = []
    seen = set()
    # state: ef in Z/NZ/U, pf (pending failure seen but status not yet set), unlinked, passes, rc
    work = [(start[0], start[1], ('Z', False, False, 0, None))]
    npaths = 0
    fw_states = []
    ret_states = []
    while work:
        bid, idx, st = work.pop()
        if (bid, idx, st) in seen:
            continue
        seen.add((bid, idx, st))
        ef, pf, unl, passes, rc = st
        b = fn.blocks[bid]
        ended = False
        for e in b['e'][idx:]:
            n = fn.nodes.get(e)
            if n is None:
                continue
            k = n['k']
            if k == 'BinaryOperator' and n.get('op') == '=' and is_status(kids(n)[0]):
                rhs = kids(n)[1]
                v = const(rhs)
                if v is not None:
                    ef = 'NZ' if v != 0 else 'Z'
                    if v != 0:
                        pf = False
                    elif pf:
                        problems.append((n, 'status variable cleared while a failure is pending'))
                elif contains_call(rhs, 'AsmContext::assemble'):
                    if ef != 'Z' or pf:
                        problems.append((n, 'assemble() result overwrites a pending failure'))
                    ef = 'U'
                else:
                    ef = 'U'
            elif callee(n) == 'AsmContext::assemble':
                passes += 1
            elif callee(n) == 'unlink':
                a = strip(call_args(n)[0], casts=True)
                if a['k'] == 'DeclRefExpr' and a.get('d') == outdecl:
                    unl = True
            elif callee(n) == 'file_write':
                fw_states.append((ef, pf, passes))
                if ef != 'Z' or pf:
                    problems.append((n, 'file_write reachable while a failure of assemble()/link() is pending '
                                        '(status=%s pending=%s)' % (ef, pf)))
                if passes < 2:
                    problems.append((n, 'file_write reachable after %d assemble() pass(es)' % passes))
                unl = False
                p = fn.parent.get(n['i'])
                use = result_use(fn, n)
                if isinstance(use, tuple):
                    rc = ('var', use[1])
                elif use == 'discarded':
                    problems.append((n, 'result of file_write is discarded'))
            elif callee(n) in ('exit', '_exit'):
                v = const(call_args(n)[0]) if call_args(n) else None
                if v == 0 and (ef != 'Z' or pf):
                    problems.append((n, 'exit(0) while a failure is pending'))
                ended = True
                break
            elif k == 'ReturnStmt':
                npaths += 1
                val = _eval_status_expr(kids(n)[0] if kids(n) else None, is_status, ef)
                ret_states.append((ef, pf, unl, val))
                failing = ef in ('NZ', 'U') or pf
                if failing:
                    if not unl:
                        problems.append((n, 'a failing path (status=%s pending=%s) returns without unlink(outfile)' % (ef, pf)))
                    if val == 'zero' or (pf and ef != 'NZ'):
                        problems.append((n, 'a failing path returns exit status 0'))
                    if val == 'unknown':
                        problems.append((n, 'exit status of a failing path cannot be shown non-zero'))
                else:
                    if val not in ('zero',):
                        problems.append((n, 'successful path returns a non-zero/unknown exit status'))
                ended = True
                break
        if ended:
            continue
        if b.get('noreturn'):
            continue
        succ = b['s']
        cond = fn.nodes.get(b.get('cond'))
        handled = False
        if cond is not None and len(succ) == 2:
            c = strip(cond)
            tv = _cond_on_status(c, is_status)
            if tv is not None:
                handled = True
                # tv: 'nz-true' => cond true iff status != 0 ; 'z-true' => cond true iff status == 0
                t_edge, f_edge = succ
                nz_edge, z_edge = (t_edge, f_edge) if tv == 'nz-true' else (f_edge, t_edge)
                if ef in ('NZ', 'U') and nz_edge is not None:
                    work.append((nz_edge, 0, ('NZ', pf, unl, passes, rc)))
                if ef in ('Z', 'U') and z_edge is not None:
                    work.append((z_edge, 0, ('Z', pf, unl, passes, rc)))
            elif c['k'] == 'BinaryOperator' and c.get('op') in ('!=', '==') and \
                    any(callee(x) == 'AsmContext::link' for x in walk(kids(c)[0])) and const(kids(c)[1]) == 0:
                handled = True
                fail_edge, ok_edge = (succ[0], succ[1]) if c['op'] == '!=' else (succ[1], succ[0])
                if fail_edge is not None:
                    work.append((fail_edge, 0, (ef, True, unl, passes, rc)))
                if ok_edge is not None:
                    work.append((ok_edge, 0, (ef, pf, unl, passes, rc)))
            elif rc is not None and c['k'] == 'BinaryOperator' and c.get('op') in ('==', '!=', '<') and \
                    strip(kids(c)[0])['k'] == 'DeclRefExpr' and strip(kids(c)[0]).get('d') == rc[1]:
                handled = True
                k0 = const(kids(c)[1])
                # failure edge of the file_write result test
                if c['op'] == '==' and k0 == -1:
                    fail_edge, ok_edge = succ[0], succ[1]
                elif c['op'] == '!=' and k0 == 0:
                    fail_edge, ok_edge = succ[0], succ[1]
                elif c['op'] == '<' and k0 == 0:
                    fail_edge, ok_edge = succ[0], succ[1]
                elif c['op'] == '==' and k0 == 0:
                    fail_edge, ok_edge = succ[1], succ[0]
                else:
                    fail_edge = ok_edge = None
                    problems.append((c, 'unrecognised test of the file_write result'))
                if fail_edge is not None:
                    work.append((fail_edge, 0, (ef, True, unl, passes, None)))
                if ok_edge is not None:
                    work.append((ok_edge, 0, (ef, pf, unl, passes, None)))
        if not handled:
            for s in fn.succs(bid):
                work.append((s, 0, (ef, pf, unl, passes, rc)))
    # file_write's own failure values must all be covered by the test in main (== -1): it returns only 0 / -1
    fwf = prog.fn('file_write')
    fw_vals = set()
    for n in fwf.nodes.values():
        if n['k'] == 'ReturnStmt' and fwf.where.get(n['i']):
            v = const(kids(n)[0]) if kids(n) else None
            fw_vals.add(v)
    if not fw_vals <= {0, -1}:
        problems.append((None, 'file_write can return %s but main tests only == -1' % sorted(map(str, fw_vals))))
    if not fw_states:
        raise AnalysisBroken('R-ERR3: file_write not reached from the first assemble() in main')
    if not ret_states:
        raise AnalysisBroken('R-ERR3: no return reached in main')
    seenp = set()
    for n, msg in problems:
        if msg in seenp:
            continue
        seenp.add(msg)
        obs.append(Ob('R-ERR3', fn.file, n['l'] if n else fn.line, 'main', msg.split(' (')[0][:60], VIOLATED, msg))
    obs.append(Ob('R-ERR3', fn.file, fw['l'], 'main', 'file_write-guard',
                  DISCHARGED if not any('file_write' in m for _, m in problems) else VIOLATED,
                  'states at file_write: %s' % sorted(set(fw_states)),
                  'file_write is reached only with status==0, no pending failure, after 2 assemble() calls'))
    obs.append(Ob('R-ERR3', fn.file, rets[-1]['l'], 'main', 'exit-status',
                  DISCHARGED if not any('return' in m or 'exit' in m for _, m in problems) else VIOLATED,
                  'states at return: %s' % sorted(set(map(str, ret_states))),
                  'every failing path passes unlink(outfile) and returns non-zero; %d abstract states explored' % len(seen)))
    # de-duplicate the two summary obligations when they are VIOLATED (details are in the specific ones)
    out = []
    for o in obs:
        if o.status == VIOLATED and o.construct in ('file_write-guard', 'exit-status'):
            o.status = DISCHARGED if False else VIOLATED
        out.append(o)
    # keep only specific violations + discharged summaries
    out = [o for o in out if not (o.status == VIOLATED and o.construct in ('file_write-guard', 'exit-status'))]
    return RuleResult('R-ERR3', out, 2 if not problems else None, {'abstract_states': len(seen), 'returns': npaths})


def _cond_on_status(c, is_status):
    """Classify a branch condition on the status variable."""
    if c['k'] == 'BinaryOperator' and c.get('op') in ('!=', '==') and is_status(kids(c)[0]) and const(kids(c)[1]) == 0:
        return 'nz-true' if c['op'] == '!=' else 'z-true'
    if c['k'] == 'BinaryOperator' and c.get('op') == '>' and is_status(kids(c)[0]) and const(kids(c)[1]) == 0:
        return None
    if is_status(c):
        return 'nz-true'
    if c['k'] == 'UnaryOperator' and c.get('op') == '!' and is_status(kids(c)[0]):
        return 'z-true'
    return None


def _eval_status_expr(e, is_status, ef):
    """Abstract value of main's return expression: 'zero' / 'nonzero' / 'unknown'."""
    if e is None:
        return 'unknown'
    v = const(e)
    if v is not None:
        return 'zero' if v == 0 else 'nonzero'
    s = strip(e, casts=True)
    if is_status(s):
        return {'Z': 'zero', 'NZ': 'nonzero'}.get(ef, 'unknown')
    if s['k'] == 'ConditionalOperator':
        c = strip(kids(s)[0])
        tv = _cond_on_status(c, is_status)
        if tv is not None and ef in ('Z', 'NZ'):
            cond_true = (ef == 'NZ') == (tv == 'nz-true')
            return _eval_status_expr(kids(s)[1] if cond_true else kids(s)[2], is_status, ef)
    return 'unknown'


# --------------------------------------------------------------------- R-ERR4
def err4(prog):
    """R-ERR4: the two error side channels are honoured by AsmContext::assemble():
       (a) the loop head tests error_count > 0 and returns non-zero, and that test dominates every reader call
           in the loop; (b) nothing but the constructor clears error_count / error (so a pass-1 error still
           fails pass 2); (c) every `return 0` of assemble() is preceded on every path by the test of `error`."""
    fn = prog.fn('AsmContext::assemble')
    obs = []
    from nk.cfg import dominators
    dom = dominators(fn)
    # (a)
    guard_blocks = []
    for b in fn.blocks.values():
        cond = fn.nodes.get(b.get('cond'))
        if cond is None:
            continue
        c = strip(cond)
        if c['k'] == 'BinaryOperator' and c.get('op') in ('>', '!=', '>=') and strip(kids(c)[0]).get('n') == 'error_count':
            k0 = const(kids(c)[1])
            if (c['op'] in ('>', '!=') and k0 == 0) or (c['op'] == '>=' and k0 == 1):
                t = b['s'][0]
                # true edge must return non-zero
                ok = False
                if t is not None:
                    for n in (fn.nodes.get(e) for e in fn.blocks[t]['e']):
                        if n is not None and n['k'] == 'ReturnStmt' and kids(n) and (const(kids(n)[0]) or 0) != 0:
                            ok = True
                if ok:
                    guard_blocks.append(b['id'])
    readers = [c for c in fn.calls() if callee(c) == 'tokens_get' and fn.where.get(c['i'])]
    if not readers:
        raise AnalysisBroken('R-ERR4: assemble() no longer calls tokens_get')
    first = min(readers, key=lambda n: n['i'])
    fb = fn.where[first['i']][0]
    ok = any(g in dom[fb] for g in guard_blocks)
    obs.append(Ob('R-ERR4', fn.file, first['l'], fn.q, 'error_count-guard', DISCHARGED if ok else VIOLATED,
                  'no test `error_count > 0 -> return non-zero` dominates the statement loop\'s tokens_get' if not ok else '',
                  'loop-head test of error_count dominates the reader call and its true edge returns non-zero'))
    # (b)
    clears = []
    for f2 in prog.functions():
        for n in f2.nodes.values():
            if n['k'] == 'BinaryOperator' and n.get('op') == '=':
                l = strip(kids(n)[0])
                if l['k'] == 'MemberExpr' and l.get('rec') == 'AsmContext' and l['n'] in ('error_count', 'error'):
                    v = const(kids(n)[1])
                    if v == 0:
                        clears.append((f2, n, l['n']))
    for f2, n, nm in clears:
        obs.append(Ob('R-ERR4', f2.file, n['l'], f2.q, 'clears-' + nm, VIOLATED,
                      '%s is reset to 0 outside the constructor: an error recorded earlier is forgotten' % nm))
    obs.append(Ob('R-ERR4', fn.file, fn.line, fn.q, 'no-reset', DISCHARGED if not clears else VIOLATED,
                  '', 'no assignment of 0 to AsmContext::error_count / error in any function (%d functions scanned)'
                  % len(prog.fns)))
    # (c)
    bad = []
    tested = set()
    for b in fn.blocks.values():
        cond = fn.nodes.get(b.get('cond'))
        if cond is None:
            continue
        c = strip(cond)
        if c['k'] == 'BinaryOperator' and c.get('op') in ('==', '!=') and strip(kids(c)[0]).get('n') == 'error' \
                and strip(kids(c)[0]).get('rec') == 'AsmContext':
            tested.add(b['id'])
        elif c['k'] == 'MemberExpr' and c.get('n') == 'error' and c.get('rec') == 'AsmContext':
            tested.add(b['id'])
    nret0 = 0
    for n in fn.nodes.values():
        if n['k'] == 'ReturnStmt' and kids(n) and const(kids(n)[0]) == 0 and fn.where.get(n['i']):
            nret0 += 1
            rb = fn.where[n['i']][0]
            if not any(t in dom[rb] for t in tested):
                bad.append(n)
    if nret0 == 0:
        raise AnalysisBroken('R-ERR4: assemble() has no `return 0`')
    obs.append(Ob('R-ERR4', fn.file, fn.end, fn.q, 'error-flag-read', DISCHARGED if not bad else VIOLATED,
                  '`return 0` at line %s is not dominated by a test of AsmContext::error' % (bad[0]['l'] if bad else ''),
                  'every `return 0` (%d) is dominated by the test of AsmContext::error' % nret0))
    return RuleResult('R-ERR4', obs, 3, {})


def eof_err(prog):
    """EOF-ERR: tokens_get() reports a failure to its callers as TOKEN_EOF, which assemble() cannot tell from the real
    end of the input; the only trace of the failure is asm_context->error_count.  Every explicit `return TOKEN_EOF` in
    tokens_get() therefore has `error_count++` in its block (the real end of input is returned through `token_type`)."""
    fn = prog.fn('tokens_get')
    obs = []
    k = 0
    for n in sorted(fn.nodes.values(), key=lambda x: x['i']):
        if n['k'] != 'ReturnStmt' or not kids(n):
            continue
        e = strip(kids(n)[0], casts=True)
        if not (e['k'] == 'DeclRefExpr' and e.get('n') == 'TOKEN_EOF'):
            continue
        w = fn.where.get(n['i'])
        if w is None:
            continue
        k += 1
        bumped = False
        for el in fn.blocks[w[0]]['e'][:w[1]]:
            x = fn.nodes.get(el)
            if x is not None and x['k'] == 'UnaryOperator' and x.get('op') == '++' and 'error_count' in show(kids(x)[0]):
                bumped = True
        obs.append(Ob('EOF-ERR', fn.file, n['l'], fn.q, 'return-TOKEN_EOF#%d' % k, DISCHARGED if bumped else VIOLATED,
                      '' if bumped else 'this `return TOKEN_EOF` reports a failure without `error_count++`: assemble() takes it for the end of '
                      'the file, the rest of the source is skipped silently and the exit status stays 0', 'error_count++ before the return'))
    if k < 3:
        raise AnalysisBroken('EOF-ERR: only %d explicit TOKEN_EOF returns in tokens_get' % k)
    return RuleResult('EOF-ERR', obs, 3, {})

"""C18 rules: SPAN (list_output gets exactly the span of the instruction just assembled), DUMP (data-section dump)."""
from nk.facts import kids, strip, const, callee, ckey, call_args, show, walk
from nk.report import Ob, RuleResult, DISCHARGED, VIOLATED, OBSERVATION
from nk.build import AnalysisBroken

ADDR_WRITERS = ('add_bin8', 'add_bin16', 'add_bin32', 'AsmContext::memory_write_inc', 'AsmContext::set_org')


def span(prog, cg):
    fn = prog.fn('AsmContext::assemble')
    obs = []
    # the local initialised from `address`
    sa = None
    for n in fn.nodes.values():
        if n['k'] == 'DeclStmt':
            for d, i in zip([d for d in n.get('decls', ()) if d.get('init')], kids(n)):
                s = strip(i, casts=True)
                if s['k'] == 'MemberExpr' and s['n'] == 'address':
                    sa = (d, n)
    pi = [c for c in fn.calls() if c.get('indirect') and strip(kids(c)[0], casts=True).get('n') == 'parse_instruction']
    lo = [c for c in fn.calls() if c.get('indirect') and strip(kids(c)[0], casts=True).get('n') == 'list_output']
    if sa is None or len(pi) != 1 or len(lo) != 1:
        raise AnalysisBroken('SPAN: assemble() not in the recognised shape (start_address / parse_instruction / list_output)')
    d, decl = sa
    pi, lo = pi[0], lo[0]
    # (1) between the snapshot and parse_instruction nothing can move `address`
    between = [c for c in fn.calls() if decl['i'] < c['i'] < pi['i'] and ckey(c)]
    movers = []
    for c in between:
        r = cg.reachable([ckey(c)])
        hit = [x for x in r if x in ADDR_WRITERS]
        if hit and callee(c) not in ('tokens_get', 'tokens_push', 'macros_append', 'macros_strip', 'macros_strip_comment',
                                     'tokens_get_char', 'tokens_unget_char'):
            movers.append('%s (reaches %s)' % (callee(c), hit[0]))
    stores = [n for n in fn.nodes.values() if decl['i'] < n['i'] < pi['i'] and n['k'] in ('BinaryOperator', 'CompoundAssignOperator', 'UnaryOperator')
              and (n.get('op') in ('++', '--') or (n.get('op', '').endswith('=') and n['op'] not in ('==', '!=', '<=', '>=')))
              and strip(kids(n)[0]).get('n') in ('address', d['n'])]
    ok = not movers and not stores
    obs.append(Ob('SPAN', fn.file, decl['l'], fn.q, 'snapshot', DISCHARGED if ok else VIOLATED,
                  'between `%s = address` and parse_instruction the location counter or the snapshot can change: %s' % (
                      d['n'], ', '.join(movers) or 'direct store') if not ok else '',
                  '`%s` is the location counter at the start of the instruction' % d['n']))
    # (2) list_output(this, start_address, address)
    a = call_args(lo)
    a1, a2 = strip(a[1], casts=True), strip(a[2], casts=True)
    ok = len(a) == 3 and a1['k'] == 'DeclRefExpr' and a1.get('d') == d['d'] and a2['k'] == 'MemberExpr' and a2['n'] == 'address'
    obs.append(Ob('SPAN', fn.file, lo['l'], fn.q, 'list_output-args', DISCHARGED if ok else VIOLATED,
                  '' if ok else 'list_output is called with (%s, %s) instead of (start of the instruction, current address)' % (show(a[1]), show(a[2])),
                  'list_output(start_address, address)', False))
    # (3) list_output follows parse_instruction with no emission in between
    ok = lo['i'] > pi['i'] and not [c for c in fn.calls() if pi['i'] < c['i'] < lo['i'] and callee(c) in ADDR_WRITERS]
    obs.append(Ob('SPAN', fn.file, lo['l'], fn.q, 'order', DISCHARGED if ok else VIOLATED,
                  '' if ok else 'list_output is not called right after parse_instruction', 'called right after parse_instruction', False))
    return RuleResult('SPAN', obs, 3, {})


def dump(prog):
    """DUMP: the 'data sections' dump of main() walks low_address..high_address, selects exactly the bytes marked
    DL_DATA and prints the byte read from the image at that address."""
    fn = prog.fn('main', 'main/naken_asm.cpp')
    obs = []
    sel = None
    for b in fn.blocks.values():
        cond = fn.nodes.get(b.get('cond')) if 'cond' in b else None
        if cond is None:
            continue
        c = strip(cond)
        if c['k'] == 'BinaryOperator' and c.get('op') == '==' and callee(strip(kids(c)[0], casts=True)) in ('AsmContext::read_debug', 'Memory::read_debug'):
            sel = (c, const(kids(c)[1]))
    if sel is None:
        raise AnalysisBroken('DUMP: selection test of the data dump not found in main()')
    ok = sel[1] == -2
    obs.append(Ob('DUMP', fn.file, sel[0]['l'], 'main', 'selects-DL_DATA', DISCHARGED if ok else VIOLATED,
                  '' if ok else 'the data dump selects debug marker %s, DL_DATA is -2' % sel[1], 'read_debug(i) == DL_DATA', False))
    idx = strip(call_args(strip(kids(sel[0])[0], casts=True))[0], casts=True)
    rd = [c for c in fn.calls() if callee(c) in ('AsmContext::memory_read', 'Memory::read8') and
          strip(call_args(c)[0], casts=True).get('d') == idx.get('d')]
    ok = bool(rd)
    obs.append(Ob('DUMP', fn.file, sel[0]['l'], 'main', 'prints-image-byte', DISCHARGED if ok else VIOLATED,
                  '' if ok else 'the dump does not print memory_read(%s)' % show(idx), 'prints memory_read(%s)' % show(idx), False))
    # (c) an address that is not listed ends the current dump line: every way round the loop that does not take the
    #     DL_DATA branch passes the statements that reset the column counter, otherwise the next listed byte is appended to
    #     the previous line and appears under the wrong address
    from nk.cfg import natural_loops
    sel_block = None
    for bid, b in fn.blocks.items():
        if b.get('cond') == sel[0]['i']:
            sel_block = bid
    loops = natural_loops(fn)
    inl = [(h, body) for h, body in loops.items() if sel_block in body]
    if not inl or sel_block is None:
        raise AnalysisBroken('DUMP: the dump loop was not found')
    h, body = min(inl, key=lambda x: len(x[1]))
    t_succ = fn.blocks[sel_block]['s'][0]
    # the column counter: the variable compared with 16 inside the DL_DATA branch
    col = None
    for n in fn.nodes.values():
        if n['k'] == 'BinaryOperator' and n.get('op') == '==' and const(kids(n)[1]) == 16:
            w = fn.where.get(n['i'])
            if w and w[0] in body:
                col = strip(kids(n)[0], casts=True).get('d')
    if col is None:
        raise AnalysisBroken('DUMP: column counter of the dump not recognised')
    resets = set()
    for n in fn.nodes.values():
        if n['k'] == 'BinaryOperator' and n.get('op') == '=' and strip(kids(n)[0], casts=True).get('d') == col and const(kids(n)[1]) == 0:
            w = fn.where.get(n['i'])
            if w and w[0] in body and w[0] != sel_block:
                # only resets outside the DL_DATA branch count (those inside belong to the 16-byte wrap)
                resets.add(w[0])
    # blocks of the DL_DATA branch: reachable from its true successor without leaving the body / passing the header
    data_branch = set()
    st = [t_succ]
    while st:
        x = st.pop()
        if x in data_branch or x not in body or x == h:
            continue
        data_branch.add(x)
        st.extend(fn.succs(x))
    resets -= data_branch
    seen = set()
    st = [s_ for s_ in fn.succs(h) if s_ in body]
    escaped = False
    while st:
        x = st.pop()
        if x in seen or x not in body or x in resets or x == t_succ:
            continue
        if x == h:
            escaped = True
            break
        seen.add(x)
        for s_ in fn.succs(x):
            if s_ == h:
                escaped = True
            st.append(s_)
    obs.append(Ob('DUMP', fn.file, sel[0]['l'], 'main', 'gap-ends-line', VIOLATED if escaped else DISCHARGED,
                  'the dump loop can go round without listing a byte and without resetting the column counter: data after a gap is '
                  'appended to the line of the data before it and appears under the wrong address' if escaped else '',
                  'every iteration that lists nothing resets the column counter'))
    return RuleResult('DUMP', obs, 3, {})


def data_tag(prog):
    """DATA-TAG: the data directives store their bytes with the DL_DATA marker (-2), because the listing shows a byte
    either through the CPU's list_output (bytes tagged with a source line, instructions only) or in the "data sections"
    dump (bytes tagged DL_DATA): a directive that emits through add_bin*() tags its bytes with the line number and
    they appear in neither."""
    obs = []
    files = ('core/directives_data.cpp', 'core/directives_include.cpp')
    n_emit = 0
    from rules.passsize import pass2_blocks
    for fn in prog.functions(lambda f: f.file in files and f.blocks):
        k = 0
        p2 = pass2_blocks(fn)
        for c in sorted(fn.calls(), key=lambda x: x['i']):
            q = (callee(c) or '').split('(')[0]
            if q in ('AsmContext::memory_write_inc', 'AsmContext::memory_write'):
                k += 1
                n_emit += 1
                w_ = fn.where.get(c['i'])
                if w_ is not None and w_[0] not in p2:
                    obs.append(Ob('DATA-TAG', fn.file, c['l'], fn.q, 'emit#%d' % k, VIOLATED,
                                  '`%s` is only executed while asm_context->pass == 1: pass 2 leaves whatever pass 1 (or an earlier '
                                  'statement of pass 2) put at these addresses' % show(c)[:60]))
                    continue
                tag = const(call_args(c)[-1])
                ok = tag == -2
                obs.append(Ob('DATA-TAG', fn.file, c['l'], fn.q, 'emit#%d' % k, DISCHARGED if ok else VIOLATED,
                              '' if ok else '`%s` stores a data byte with marker %s instead of DL_DATA (-2): it is left out of the listing\'s '
                              'data dump' % (show(c)[:60], tag), 'marker DL_DATA', False))
            elif q in ('add_bin8', 'add_bin16', 'add_bin32', 'add_bin64', 'add_bin'):
                k += 1
                n_emit += 1
                obs.append(Ob('DATA-TAG', fn.file, c['l'], fn.q, 'emit#%d' % k, VIOLATED,
                              '`%s` in a data directive: add_bin*() tags the bytes with the source line (they are expected to be '
                              'listed by the CPU\'s list_output, which is only called for instructions), so they appear nowhere in '
                              'the listing' % show(c)[:60]))
    if n_emit < 20:
        raise AnalysisBroken('DATA-TAG: only %d emission calls in the data directives' % n_emit)
    return RuleResult('DATA-TAG', obs, 20, {})

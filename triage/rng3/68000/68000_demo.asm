.68000
  ; absolute short (xxx).W: -70000 does not fit 16 bits, encodes like 0xee90
  move.w (-70000), d0
  move.w (0xee90), d0
  tst.w (-70000)
  tst.w (0xee90)
  jmp (-65537)
  jmp (0xffff)

"""DOUBLE-STEP (C09/C16): in core/, fileio/ and common/ a `for` loop that steps its counter in the loop header does not step
the same counter again inside its body.  All 60 such loops of the unchanged tree obey this (the argv loops of the two main()
functions, which consume an option's argument with an extra i++, are outside the scope).  A `while` loop converted to
`for (...; n++)` that keeps an `n++` in one branch skips a character: `-I a:b` loses the first character after the colon."""
from nk.facts import kids, strip, show, walk
from nk.report import Ob, RuleResult, DISCHARGED, VIOLATED
from nk.build import AnalysisBroken


def double_step(prog, floor=40):
    obs = []
    for fn in sorted(prog.functions(lambda f: f.file.startswith(('core/', 'fileio/', 'common/'))), key=lambda f: (f.file, f.line)):
        k = 0
        for n in sorted(fn.nodes.values(), key=lambda x: x['i']):
            if n['k'] != 'ForStmt':
                continue
            ks = kids(n)
            inc = None
            for x in ks[:-1]:
                if x is not None and x['k'] == 'UnaryOperator' and x.get('op') in ('++', '--'):
                    inc = x
            body = ks[-1] if ks else None
            if inc is None or body is None:
                continue
            v = strip(kids(inc)[0]).get('d')
            if v is None:
                continue
            k += 1
            extra = [x for x in walk(body) if ((x['k'] == 'UnaryOperator' and x.get('op') in ('++', '--')) or
                                               (x['k'] == 'CompoundAssignOperator' and x.get('op') in ('+=', '-='))) and
                     strip(kids(x)[0]).get('d') == v]
            construct = 'for#%d:%s' % (k, show(inc))
            if extra:
                obs.append(Ob('DOUBLE-STEP', fn.file, extra[0]['l'], fn.q, construct, VIOLATED,
                              'the loop header already steps `%s` and the body steps it again (`%s`, line %d): the element in between '
                              'is skipped' % (show(inc), show(extra[0]), extra[0]['l'])))
            else:
                obs.append(Ob('DOUBLE-STEP', fn.file, n['l'], fn.q, construct, DISCHARGED, '', 'the counter is stepped only in the header', False))
    if len(obs) < floor:
        raise AnalysisBroken('DOUBLE-STEP: only %d counted for loops' % len(obs))
    return RuleResult('DOUBLE-STEP', obs, floor, {})

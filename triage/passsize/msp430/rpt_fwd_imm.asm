.msp430x
.org 0x8000
start:
  rpt #3, add.w #fwd, r5
after:
  nop
  nop
fwd:
  nop

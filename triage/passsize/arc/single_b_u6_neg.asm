.arc
start:
  abs r3, fwd
after:
  nop_s
.set fwd=-5
